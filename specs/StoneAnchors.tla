--------------------------- MODULE StoneAnchors ---------------------------
(***************************************************************************)
(* Order-abstracted numbers.  TLC integers are 32 bit; Stone's bounds go   *)
(* to 2^64.  Every numeric rule of Stone is a comparison, so the model     *)
(* works over RANKS in the sorted anchor tables below.  The same tables    *)
(* live in harness/anchors.py (INT_ANCHORS / FLOAT_ANCHORS); the harness   *)
(* self-test compares the two.                                             *)
(*                                                                         *)
(* INT rank -> value                                                       *)
(*  0 -2^63-1   1 -2^63    2 -2^63+1   3 -2^31-1   4 -2^31    5 -2^31+1     *)
(*  6 -3        7 -2       8 -1        9 0        10 1       11 2           *)
(* 12 3        13 4       14 2^31-2   15 2^31-1   16 2^31    17 2^32-2      *)
(* 18 2^32-1   19 2^32    20 2^63-2   21 2^63-1   22 2^63    23 2^64-2      *)
(* 24 2^64-1   25 2^64                                                     *)
(* FLOAT rank -> value                                                     *)
(*  0 -1e39  1 -3.40282e38  2 -1e10  3 -3.0  4 -2.0  5 -1.5  6 -1.0  7 -0.5 *)
(*  8 0.0    9 0.5  10 1.0  11 1.5  12 2.0  13 3.0  14 4.0  15 1e10         *)
(* 16 3.40282e38  17 1e39                                                  *)
(***************************************************************************)
EXTENDS Naturals, Integers

IntRanks   == 0..25
FloatRanks == 0..17
IZero      == 9
FZero      == 8
FHalf      == 9

IntLo(p) == CASE p = "Int32" -> 4 [] p = "UInt32" -> 9 [] p = "Int64" -> 1 [] p = "UInt64" -> 9
IntHi(p) == CASE p = "Int32" -> 15 [] p = "UInt32" -> 18 [] p = "Int64" -> 21 [] p = "UInt64" -> 24
FloatLo(p) == CASE p = "Float32" -> 1 [] p = "Float64" -> 0
FloatHi(p) == CASE p = "Float32" -> 16 [] p = "Float64" -> 17

\* exact int -> float conversion is modelled for the small anchors only
IntToFloatDefined(r) == r \in 6..13
IntToFloat(r) == CASE r = 6 -> 3 [] r = 7 -> 4 [] r = 8 -> 6 [] r = 9 -> 8
                   [] r = 10 -> 10 [] r = 11 -> 12 [] r = 12 -> 13 [] r = 13 -> 14
=============================================================================

----------------------------- MODULE StoneLoadMC -----------------------------
(***************************************************************************)
(* C09 C14 C15: what the generated Python code must look like and do.      *)
(*                                                                         *)
(* An API model is a StoneCore schema plus routes, chosen from a universe  *)
(* that varies inheritance shape (two levels / a field-less marker in the  *)
(* middle), where ancestors live (same or imported namespace), argument    *)
(* kind, deprecation, style, and whether three namespaces import each      *)
(* other in a ring.  From the model alone the specification derives        *)
(*  - Load(first): executing the module statements with partial modules    *)
(*    (imports first, then classes, validators, defaults, routes);         *)
(*    NoLoadError iff the import graph reachable from `first` is acyclic;  *)
(*  - PySurface(ns): classes with bases, constructor parameters in order,  *)
(*    attributes, union helpers, validators, alias bindings, route         *)
(*    objects; StubSurface is the same declaration surface plus the        *)
(*    Pep484 annotation of every member;                                   *)
(*  - Signature(route) and every call shape with the request it must       *)
(*    issue.                                                               *)
(* TLC enumerates models, first imports and call shapes; each state is     *)
(* replayed on python_types / python_type_stubs / python_client output.    *)
(***************************************************************************)
EXTENDS StoneWire, Json

CONSTANTS Shard, NShards, EmitVectors
VARIABLES cfg, phase, first, call
vars == <<cfg, phase, first, call>>

S64 == TInt("Int64", Unset, Unset)
I32 == TInt("Int32", Unset, Unset)
Str == TStr(Unset, Unset, "")

\* rsv: the shared namespace is called `async`, a Python reserved word (the generated module is then async_)
Cfgs == {[chain |-> c, pns |-> p, arg |-> a, dep |-> d, style |-> s, ring |-> r, rsv |-> FALSE, tsd |-> FALSE] :
            c \in {"two", "marker3"}, p \in {"same", "foreign"}, a \in {"struct", "union", "void"},
            d \in {"none", "plain", "by"}, s \in {"rpc", "upload", "download"}, r \in {FALSE}}
        \cup {[chain |-> "two", pns |-> "foreign", arg |-> "struct", dep |-> "none", style |-> "rpc", ring |-> TRUE, rsv |-> FALSE, tsd |-> FALSE]}
        \cup {[chain |-> ch, pns |-> p, arg |-> a, dep |-> "none", style |-> "rpc", ring |-> FALSE, rsv |-> TRUE, tsd |-> FALSE] :
                ch \in {"two", "marker3"}, p \in {"same", "foreign"}, a \in {"struct", "union", "void"}}
        \* tsd: a struct field with a Timestamp default and one with a Bytes default (the Swift and Objective-C type backends
        \* do not complete on these: known finding of C17)
        \cup {[chain |-> "two", pns |-> p, arg |-> "void", dep |-> "none", style |-> "rpc", ring |-> FALSE, rsv |-> FALSE, tsd |-> TRUE] :
                p \in {"same", "foreign"}}
        \* dep = "late": no version-1 route is deprecated, only put:2 (by put:3)
        \cup {[chain |-> "two", pns |-> p, arg |-> a, dep |-> "late", style |-> "rpc", ring |-> FALSE, rsv |-> FALSE, tsd |-> FALSE] :
                p \in {"same", "foreign"}, a \in {"struct", "union", "void"}}
CfgIndex(c) == CHOOSE i \in 1..Cardinality(Cfgs) : TRUE
CfgSeq == SetToSeq(Cfgs)

\* namespaces: na (routes, leaf types), nb (ancestors, shared types), nc (routes only / ring member)
NB(c) == IF c.rsv THEN "async" ELSE "nb"
AncNs(c) == IF c.pns = "same" THEN "na" ELSE NB(c)
Schema(c) ==
    ("Color" :> DUnion(NB(c), "", TRUE, <<Tag("red", TVoid), Tag("green", TVoid)>>)) @@
    ("Name"  :> DAlias(NB(c), TStr(1, Unset, ""), "")) @@
    \* na never mentions nd: it reaches the union Tint only through the alias Shade of the shared namespace
    ("Tint"  :> DUnion("nd", "", TRUE, <<Tag("dark", TVoid), Tag("light", TVoid)>>)) @@
    ("Shade" :> DAlias(NB(c), TRef("Tint"), "")) @@
    \* aliases of the shared namespace that WRAP the class of the fourth namespace: they are written out where they are used
    ("Shades" :> DAlias(NB(c), TList(TRef("Tint"), Unset, Unset), "")) @@
    ("MaybeShade" :> DAlias(NB(c), TNull(TRef("Tint")), "")) @@
    \* a namespace whose only type inherits a defaulted field from another namespace and has nothing optional of its own
    \* (the inherited field tint is typed by a class of a namespace nf does not import)
    ("Base0"  :> DStruct(NB(c), "", <<Fld("id", Str), FldD("weight", I32, VInt(13)), Fld("tint", TNull(TRef("Tint")))>>, <<>>, FALSE)) @@
    ("Circle" :> DStruct("nf", "Base0", <<Fld("radius", TFloat("Float64", Unset, Unset))>>, <<>>, FALSE)) @@
    (IF c.tsd THEN ("Stamped" :> DStruct("nf", "", <<FldD("at", TTs("f2"), VTs(0)), FldD("raw", TBytes(Unset, Unset), VBytes(2, 0)),
                                                    Fld("n", I32)>>, <<>>, FALSE))
     ELSE <<>>) @@
    \* a namespace that declares nothing but an alias
    ("Label" :> DAlias("aa", TStr(1, Unset, ""), "")) @@
    ("Entry" :> DStruct(AncNs(c), "", <<Fld("ident", Str), Fld("label", TNull(Str)), FldD("rank", S64, VInt(13))>>, <<>>, FALSE)) @@
    (IF c.chain = "marker3"
     THEN ("PinnedEntry" :> DStruct(AncNs(c), "Entry", <<>>, <<>>, FALSE)) ELSE <<>>) @@
    ("Upload" :> DStruct("na", IF c.chain = "marker3" THEN "PinnedEntry" ELSE "Entry",
                         <<Fld("path", Str), Fld("size", TNull(S64)),
                           FldD("mode", TRef("Color"), VUnion("Color", "green", VNone)),
                           FldD("ratio", TFloat("Float64", Unset, Unset), VFloat(9)),
                           FldD("flag", TBool, VBool(TRUE)),
                           FldD("shade", TRef("Shade"), VUnion("Tint", "dark", VNone)),
                           Fld("note", TNull(TRef("Name"))),
                           Fld("count", I32)>>, <<>>, FALSE)) @@
    ("Choice" :> DUnion("na", "", FALSE, <<Tag("none_tag", TVoid), Tag("text", Str), Tag("entry", TRef("Entry")),
                                           Tag("maybe", TNull(TRef("Upload"))), Tag("color", TRef("Color")),
                                           Tag("grid", TList(TList(Str, Unset, Unset), Unset, Unset)),
                                           Tag("flags", TNull(TList(TBool, Unset, Unset)))>>)) @@
    ("More" :> DUnion("na", "Choice", FALSE, <<Tag("extra", I32), Tag("plain", TVoid)>>)) @@
    ("Up" :> DAlias("na", TRef("Upload"), "")) @@
    ("UPL" :> DAlias("na", TRef("Upload"), "")) @@          \* the class binding keeps the raw name, the validator is Upl_validator
    \* aliases whose names are not in the canonical capitalisation of the Python backends (RA -> Ra)
    ("RA" :> DAlias("na", TStr(Unset, Unset, ""), "")) @@
    ("RB" :> DAlias("na", TRef("RA"), "")) @@
    ("MaybeName" :> DAlias("na", TNull(TRef("Name")), "")) @@
    \* a type whose name is a reserved word of the Swift naming scheme (which then appends an underscore), used elsewhere
    ("Extension" :> DStruct("na", "", <<Fld("ext", Str)>>, <<>>, FALSE)) @@
    \* a LOCAL alias of a foreign alias (Shade, in the shared namespace) of a class of a third namespace (nd.Tint)
    ("Hue" :> DAlias("na", TRef("Shade"), "")) @@
    ("Tree" :> DStruct("na", "", <<Fld("t", I32)>>, <<Sub("leaf_a", "LeafA")>>, TRUE)) @@
    ("LeafA" :> DStruct("na", "Tree", <<Fld("x", TList(TRef("Name"), Unset, Unset))>>, <<>>, FALSE)) @@
    \* every remaining primitive and nested containers (lists of lists, maps of lists, lists of nullables)
    ("Grid" :> DStruct("na", "", <<Fld("mask", TList(TList(TBool, Unset, Unset), Unset, Unset)),
                                   Fld("rows", TNull(TList(TList(Str, Unset, Unset), Unset, Unset))),
                                   Fld("stamp", TTs("f1")),
                                   Fld("blob", TBytes(Unset, Unset)),
                                   Fld("f32", TFloat("Float32", Unset, Unset)),
                                   Fld("u64", TNull(TInt("UInt64", Unset, Unset))),
                                   Fld("by_name", TMap(TList(I32, Unset, Unset))),
                                   Fld("holes", TList(TNull(Str), Unset, Unset)),
                                   Fld("cells", TList(TList(TRef("Entry"), Unset, Unset), Unset, Unset)),
                           Fld("label", TRef("Label")), Fld("ra", TNull(TRef("RA"))),
                           Fld("trees", TMap(TRef("Tree"))),          \* a map of structs with enumerated subtypes
                           Fld("hue", TNull(TRef("Hue"))), Fld("ext_info", TNull(TRef("Extension"))),
                           Fld("shades", TNull(TRef("Shades"))), Fld("maybe_shade", TRef("MaybeShade")),
                           Fld("saplings", TList(TNull(TRef("Tree")), Unset, Unset)),   \* nullable items with enumerated subtypes
                           Fld("rb", TList(TRef("RB"), Unset, Unset))>>, <<>>, FALSE)) @@
    (IF c.ring THEN ("Yb" :> DStruct(NB(c), "", <<Fld("z", TNull(TRef("Zc")))>>, <<>>, FALSE)) @@
                    ("Zc" :> DStruct("nc", "", <<Fld("e", TNull(TRef("Upload")))>>, <<>>, FALSE))
     ELSE <<>>)

\* routes: [ns, n, ver, arg, res, err, dep (kind), by (<<name, ver>>), style]
ArgType(c) == CASE c.arg = "struct" -> TRef("Upload") [] c.arg = "union" -> TRef("More") [] c.arg = "void" -> TVoid
\* the route schema (stone_cfg.Route), in declaration order: a defaulted and a nullable attribute come BEFORE a
\* required one, so "schema order" differs from "required first"
RouteSchema == <<"host", "scope", "auth", "style">>
Route(ns, n, ver, arg, res, dep, by, style) ==
    [ns |-> ns, n |-> n, ver |-> ver, arg |-> arg, res |-> res, err |-> TVoid, dep |-> dep, by |-> by, style |-> style,
     auth |-> "user", scope |-> IF ver = 3 THEN "files\nread" ELSE "",     \* a text of two lines
     \* host has the default "api"; version 2 routes write the EMPTY text explicitly (an explicit value is not a missing one)
     host |-> IF ver = 2 THEN "" ELSE "api"]
AStr(x) == [k |-> "str", s |-> x]
ANull   == [k |-> "null"]
\* attribute values of a route in schema order: host is written only when it is not the default "api", scope is nullable
AttrVals(r) == <<AStr(r.host), IF r.scope = "" THEN ANull ELSE AStr(r.scope), AStr(r.auth), AStr(r.style)>>
RoutesOf(c) == <<
    Route("na", "put", 1, ArgType(c), TRef("Entry"), IF c.dep = "late" THEN "none" ELSE c.dep,
          IF c.dep = "by" THEN <<"put", 2>> ELSE <<>>, c.style),
    Route("na", "put", 2, ArgType(c), TVoid, IF c.dep = "late" THEN "by" ELSE "none",
          IF c.dep = "late" THEN <<"put", 3>> ELSE <<>>, c.style),       \* a Void result in every style
    Route("na", "put", 3, TRef("Choice"), TRef("Choice"), "none", <<>>, "rpc"),
    Route("na", "get_thing", 1, TVoid, TRef("Tree"), IF c.dep = "late" THEN "none" ELSE "plain", <<>>, "download"),
    \* a route in the shared namespace (whose name is a Python reserved word in the rsv models)
    Route(NB(c), "poll", 1, TVoid, TVoid, "none", <<>>, "rpc"),
    Route("nc", "ping", 1, TVoid, TVoid, "none", <<>>, "rpc"),
    \* a union argument that lives in another namespace than the route
    Route("nc", "paint", 1, IF c.ring THEN TVoid ELSE TRef("Color"), TVoid, "none", <<>>, "rpc"),
    \* a struct argument that lives in another namespace than the route
    Route("nc", "stash", 1, TRef("Upload"), TVoid, "none", <<>>, "rpc"),
    \* (in the ring model nc must import na only, or nb <-> nc would be a direct mutual import)
    Route("nc", "whoami", 1, TVoid, IF c.ring THEN TVoid ELSE TRef("Entry"), "none", <<>>, "rpc") >>
Namespaces(c) == {"na", NB(c), "nc", "nd", "aa", "nf"}
\* python_types names a module after its namespace, with an underscore appended to Python reserved words
PyReserved == {"async", "class", "for", "pass", "while", "break", "continue", "import", "from", "global", "lambda"}
PyModule(ns) == IF ns \in PyReserved THEN ns \o "_" ELSE ns
\* the Python backends capitalise names word by word: an all-capitals name keeps only its first capital
PyName(n) == CASE n = "RA" -> "Ra" [] n = "RB" -> "Rb" [] n = "UPL" -> "Upl" [] OTHER -> n

\* ------------------------------------------------------------- imports and loading
RECURSIVE TypeRefs(_)
TypeRefs(t) == CASE t.k = "ref" -> {t.n} [] t.k \in {"list", "nullable"} -> TypeRefs(t.e) [] t.k = "map" -> TypeRefs(t.v)
                 [] OTHER -> {}
DefRefs(sc, n) ==
    LET d == sc[n] IN
    CASE d.k = "alias"  -> TypeRefs(d.t)
      [] d.k = "struct" -> (IF d.parent = "" THEN {} ELSE {d.parent}) \cup UNION {TypeRefs(d.fields[i].t) : i \in DOMAIN d.fields}
                           \cup {d.subs[i].sub : i \in DOMAIN d.subs}
      [] d.k = "union"  -> (IF d.parent = "" THEN {} ELSE {d.parent}) \cup UNION {TypeRefs(d.tags[i].t) : i \in DOMAIN d.tags}
\* module ns imports module m iff something of ns references something of m
ImportsOf(c, ns) ==
    LET sc == Schema(c)
        fromTypes == UNION {{sc[r].ns : r \in DefRefs(sc, n)} : n \in {x \in DOMAIN sc : sc[x].ns = ns}}
        fromRoutes == UNION {{sc[r].ns : r \in TypeRefs(RoutesOf(c)[i].arg) \cup TypeRefs(RoutesOf(c)[i].res)}
                             : i \in {j \in DOMAIN RoutesOf(c) : RoutesOf(c)[j].ns = ns}}
    IN  (fromTypes \cup fromRoutes) \ {ns}
\* executing `import m` with the set of modules still being loaded: a module needs every name it
\* references at module level; a module that is still loading has defined nothing yet
RECURSIVE Load(_, _, _, _)
Load(c, m, loading, done) ==        \* returns [ok, done]
    IF m \in done THEN [ok |-> TRUE, done |-> done]
    ELSE IF m \in loading THEN [ok |-> FALSE, done |-> done]     \* partially initialised module: its names are missing
    ELSE LET RECURSIVE Each(_, _)
             Each(ms, acc) == IF ms = {} THEN acc
                              ELSE LET x == CHOOSE y \in ms : TRUE
                                       r == IF acc.ok THEN Load(c, x, loading \cup {m}, acc.done) ELSE acc
                                   IN  Each(ms \ {x}, r)
             r == Each(ImportsOf(c, m), [ok |-> TRUE, done |-> done])
         IN  IF r.ok THEN [ok |-> TRUE, done |-> r.done \cup {m}] ELSE r
LoadOk(c, f) == Load(c, f, {}, {}).ok
RECURSIVE ReachImp(_, _, _)
ReachImp(c, frontier, acc) == IF frontier = {} THEN acc
                              ELSE LET nxt == UNION {ImportsOf(c, m) : m \in frontier} \ acc IN ReachImp(c, nxt, acc \cup nxt)
OnCycle(c, m) == m \in ReachImp(c, ImportsOf(c, m), ImportsOf(c, m))
CycleReachable(c, f) == \E m \in ReachImp(c, {f}, {f}) : OnCycle(c, m)

\* ------------------------------------------------------------- surfaces
PyRouteName(r) == [n |-> r.n, ver |-> r.ver]         \* rendered name, name_v2, ...
\* Stone type -> PEP 484 type (python_type_mapping), symbolic
\* what a reference stands for when only alias layers are removed
RECURSIVE AliasOnly(_, _)
AliasOnly(sc, t) == IF t.k = "ref" /\ sc[t.n].k = "alias" THEN AliasOnly(sc, sc[t.n].t) ELSE t
RECURSIVE Pep(_, _, _)
Pep(sc, cur, t) ==
    CASE t.k = "int" -> [k |-> "int"] [] t.k = "float" -> [k |-> "float"] [] t.k = "str" -> [k |-> "Text"]
      [] t.k = "bytes" -> [k |-> "bytes"] [] t.k = "bool" -> [k |-> "bool"] [] t.k = "ts" -> [k |-> "datetime"]
      [] t.k = "void" -> [k |-> "None"]
      [] t.k = "list" -> [k |-> "List", e |-> Pep(sc, cur, t.e)]
      [] t.k = "map" -> [k |-> "Dict", v |-> Pep(sc, cur, t.v)]
      [] t.k = "nullable" -> [k |-> "Optional", e |-> Pep(sc, cur, t.e)]
      [] t.k = "ref" -> IF sc[t.n].k = "alias"
                        THEN \* an alias stands for its target; a stub imports the namespaces its spec imports, so an alias of
                             \* another namespace that stands for a class of a THIRD namespace is named by the alias itself
                             \* (which that namespace binds to the class)
                             LET fin == AliasOnly(sc, t) IN
                             IF sc[t.n].ns # cur /\ fin.k = "ref" /\ sc[fin.n].ns \notin {cur, sc[t.n].ns}
                             THEN [k |-> "cls", ns |-> sc[t.n].ns, n |-> t.n]
                             ELSE Pep(sc, cur, sc[t.n].t)
                        ELSE [k |-> "cls", ns |-> IF sc[t.n].ns = cur THEN "" ELSE sc[t.n].ns, n |-> t.n]
\* language-neutral symbolic type: like Pep but aliases stay references (some backends declare them)
RECURSIVE Sym(_, _, _)
Sym(sc, cur, t) ==
    CASE t.k = "int" -> [k |-> "int", p |-> t.p] [] t.k = "float" -> [k |-> "float", p |-> t.p] [] t.k = "str" -> [k |-> "str"]
      [] t.k = "bytes" -> [k |-> "bytes"] [] t.k = "bool" -> [k |-> "bool"] [] t.k = "ts" -> [k |-> "ts"]
      [] t.k = "void" -> [k |-> "void"]
      [] t.k = "list" -> [k |-> "list", e |-> Sym(sc, cur, t.e)]
      [] t.k = "map" -> [k |-> "map", v |-> Sym(sc, cur, t.v)]
      [] t.k = "nullable" -> [k |-> "nullable", e |-> Sym(sc, cur, t.e)]
      [] t.k = "ref" -> [k |-> IF sc[t.n].k = "alias" THEN "alias" ELSE sc[t.n].k, ns |-> sc[t.n].ns, n |-> t.n]
\* a declared member: name, symbolic type, nullable (possibly through an alias), has a default
Member(sc, cur, f) == [n |-> f.n, sym |-> Sym(sc, cur, f.t), nullable |-> IsNullable(sc, f.t),
                       dflt |-> ("d" \in DOMAIN f /\ f.d.k # "nodefault"), void |-> Unalias(sc, f.t).k = "void"]
StructSurface(sc, n) ==
    [k |-> "struct", n |-> n, base |-> sc[n].parent,
     ctor |-> [i \in DOMAIN AllFields(sc, n) |-> AllFields(sc, n)[i].n],
     fields |-> SeqNames(AllFields(sc, n)),
     own |-> [i \in DOMAIN sc[n].fields |-> [n |-> sc[n].fields[i].n, t |-> Pep(sc, sc[n].ns, sc[n].fields[i].t)]],
     members |-> [i \in DOMAIN sc[n].fields |-> Member(sc, sc[n].ns, sc[n].fields[i])],
     all_members |-> [i \in DOMAIN FieldsInherited(sc, n) |-> Member(sc, sc[n].ns, FieldsInherited(sc, n)[i])],
     subs |-> sc[n].subs, is_sub_of |-> IF sc[n].parent # "" /\ HasSubs(sc, sc[n].parent) THEN TagOfSub(sc, sc[n].parent, n) ELSE ""]
UnionSurface(sc, n) ==
    LET tags == AllTags(sc, n)
        ownT == sc[n].tags \o (IF ~sc[n].closed /\ (sc[n].parent = "" \/ ~IsOpenUnion(sc, sc[n].parent))
                               THEN <<Tag("other", TVoid)>> ELSE <<>>)
    IN  [k |-> "union", n |-> n, base |-> sc[n].parent,
         void_tags |-> {tags[i].n : i \in {j \in DOMAIN tags : Unalias(sc, tags[j].t).k = "void"}},
         typed_tags |-> {tags[i].n : i \in {j \in DOMAIN tags : Unalias(sc, tags[j].t).k # "void"}},
         own |-> [i \in DOMAIN ownT |-> [n |-> ownT[i].n, t |-> Pep(sc, sc[n].ns, ownT[i].t)]],
         members |-> [i \in DOMAIN ownT |-> Member(sc, sc[n].ns, ownT[i])],
         all_members |-> [i \in DOMAIN tags |-> Member(sc, sc[n].ns, tags[i])]]
PySurface(c, ns) ==
    LET sc == Schema(c)
        mine == {n \in DOMAIN sc : sc[n].ns = ns}
        rts == {RoutesOf(c)[i] : i \in {j \in DOMAIN RoutesOf(c) : RoutesOf(c)[j].ns = ns}}
    IN  [ns |-> ns, pymod |-> PyModule(ns),
         structs |-> {StructSurface(sc, n) : n \in {x \in mine : sc[x].k = "struct"}},
         unions  |-> {UnionSurface(sc, n) : n \in {x \in mine : sc[x].k = "union"}},
         validators |-> {PyName(n) : n \in mine},                      \* <Name>_validator for every type and alias
         \* Alias = Class, when the alias stands for the class itself (through aliases only: an alias of `Class?` names a
         \* nullable type, not a class)
         class_aliases |-> {n \in mine : sc[n].k = "alias" /\ AliasOnly(sc, sc[n].t).k = "ref"},
         aliases |-> {[n |-> n, sym |-> Sym(sc, ns, sc[n].t)] : n \in {x \in mine : sc[x].k = "alias"}},
         routes |-> {[n |-> r.n, ver |-> r.ver, deprecated |-> r.dep # "none", arg |-> r.arg, res |-> r.res,
                      err |-> r.err, style |-> r.style,
                      \* what a client function of this route requests: URL, argument or null, attribute values
                      url |-> [ns |-> ns, n |-> r.n, ver |-> r.ver], has_arg |-> r.arg.k # "void", attrs |-> AttrVals(r), attr_names |-> RouteSchema,
                      arg_sym |-> Sym(sc, ns, r.arg), res_sym |-> Sym(sc, ns, r.res), err_sym |-> Sym(sc, ns, r.err)] : r \in rts}]

\* ------------------------------------------------------------- client calls (C14)
\* Signature: required fields positional in declaration order (ancestors first), optional ones
\* keyword parameters carrying the spec defaults
Sig(c, r) ==
    IF r.arg.k = "ref" /\ Schema(c)[r.arg.n].k = "struct"
    THEN LET fs == AllFields(Schema(c), r.arg.n)
         IN  [kind |-> "struct",
              required |-> [i \in DOMAIN SelectSeq(fs, LAMBDA f : IsRequiredField(Schema(c), f)) |->
                              SelectSeq(fs, LAMBDA f : IsRequiredField(Schema(c), f))[i].n],
              optional |-> [i \in DOMAIN SelectSeq(fs, LAMBDA f : IsOptionalField(Schema(c), f)) |->
                              SelectSeq(fs, LAMBDA f : IsOptionalField(Schema(c), f))[i].n]]
    ELSE IF r.arg.k = "void" THEN [kind |-> "void", required |-> <<>>, optional |-> <<>>]
    ELSE [kind |-> "union", required |-> <<"arg">>, optional |-> <<>>]
\* a call shape: the first k parameters positionally, the rest of the required ones and a subset of
\* the optional ones by keyword
CallShapes(c, r) ==
    LET s == Sig(c, r)
        params == s.required \o s.optional
        Kws(k) == {x \in SUBSET {params[i] : i \in (k + 1)..Len(params)} :
                        \* every required parameter is supplied; optional ones: none, all, or exactly one
                        /\ {s.required[i] : i \in DOMAIN s.required} \ {params[i] : i \in 1..k} \subseteq x
                        /\ LET o == x \cap {s.optional[i] : i \in DOMAIN s.optional}
                               avail == {s.optional[i] : i \in DOMAIN s.optional} \ {params[i] : i \in 1..k}
                           IN  Cardinality(o) <= 1 \/ o = avail}
    IN  UNION {{[npos |-> k, kw |-> kws] : kws \in Kws(k)} : k \in 0..Len(params)}
Request(c, r, shape) ==
    LET s == Sig(c, r)
        params == s.required \o s.optional
        given == {params[i] : i \in 1..shape.npos} \cup shape.kw
    IN  [method |-> [ns |-> r.ns, n |-> r.n, ver |-> r.ver],
         route |-> PyRouteName(r), namespace |-> r.ns,
         arg_kind |-> s.kind, given |-> given,
         body |-> r.style = "upload",
         warn |-> r.dep # "none",
         returns_none |-> r.res.k = "void"]

\* ------------------------------------------------------------- the machine
Init == /\ cfg \in {i \in DOMAIN CfgSeq : i % NShards = Shard}
        /\ phase = "model" /\ first = "" /\ call = <<>>
ImportFirst == /\ phase = "model"
               /\ first' \in Namespaces(CfgSeq[cfg])
               /\ phase' = "loaded"
               /\ UNCHANGED <<cfg, call>>
CallRoute == /\ phase = "model"
             /\ \E i \in DOMAIN RoutesOf(CfgSeq[cfg]) :
                  \E sh \in CallShapes(CfgSeq[cfg], RoutesOf(CfgSeq[cfg])[i]) :
                     call' = <<i, sh>>
             /\ phase' = "called"
             /\ UNCHANGED <<cfg, first>>
Next == ImportFirst \/ CallRoute
Spec == Init /\ [][Next]_vars

\* ------------------------------------------------------------- properties
C == CfgSeq[cfg]
\* the module-level execution succeeds exactly when no import cycle is reachable
LoadIffAcyclic == phase = "loaded" => (LoadOk(C, first) <=> ~CycleReachable(C, first))
\* accepted specs without an import ring load whichever namespace comes first
NoLoadError == (phase = "loaded" /\ ~C.ring) => LoadOk(C, first)
\* the constructor takes all fields, inherited ones included, each once, required before optional
CtorCoversAllFields ==
    \A n \in {x \in DOMAIN Schema(C) : Schema(C)[x].k = "struct"} :
        LET s == StructSurface(Schema(C), n) IN
        /\ {s.ctor[i] : i \in DOMAIN s.ctor} = SeqNames(FieldsInherited(Schema(C), n))
        /\ \A i, j \in DOMAIN s.ctor : i # j => s.ctor[i] # s.ctor[j]
        /\ \A i, j \in DOMAIN s.ctor :
              (i < j /\ IsOptionalField(Schema(C), FieldByName(AllFields(Schema(C), n), s.ctor[i])))
                  => IsOptionalField(Schema(C), FieldByName(AllFields(Schema(C), n), s.ctor[j]))
\* the client signature is the constructor order: positional construction binds every parameter to its field
SignatureIsCtorOrder ==
    \A i \in DOMAIN RoutesOf(C) :
        LET r == RoutesOf(C)[i] IN
        Sig(C, r).kind = "struct" =>
            Sig(C, r).required \o Sig(C, r).optional = StructSurface(Schema(C), r.arg.n).ctor
\* every call shape supplies every required parameter exactly once
CallsWellFormed ==
    phase = "called" =>
        LET r == RoutesOf(C)[call[1]] s == Sig(C, r) params == s.required \o s.optional IN
        /\ {s.required[i] : i \in DOMAIN s.required} \subseteq Request(C, r, call[2]).given
        /\ {params[i] : i \in 1..call[2].npos} \cap call[2].kw = {}

\* ------------------------------------------------------------- vectors
ModelVector == [phase |-> "model", cfg |-> cfg, c |-> C, schema |-> Schema(C), routes |-> RoutesOf(C),
                surfaces |-> [ns \in Namespaces(C) |-> PySurface(C, ns)],
                imports |-> [ns \in Namespaces(C) |-> SetToSeq(ImportsOf(C, ns))]]
Vector == CASE phase = "loaded" -> [phase |-> "loaded", cfg |-> cfg, first |-> first, ok |-> LoadOk(C, first)]
            [] phase = "called" -> [phase |-> "called", cfg |-> cfg, route |-> call[1], shape |-> call[2],
                                    sig |-> Sig(C, RoutesOf(C)[call[1]]),
                                    request |-> Request(C, RoutesOf(C)[call[1]], call[2])]
            [] OTHER -> ModelVector
Emit == IF EmitVectors THEN PrintT(<<"VEC", ToJson(Vector)>>) ELSE TRUE
=============================================================================

----------------------------- MODULE StoneRuntime -----------------------------
(***************************************************************************)
(* The reference predicate for Python-level values of a declared Stone     *)
(* type (lang_ref "Basic Types", "Nullable Type", "Struct Polymorphism",   *)
(* "Union / Inheritance"): Accepts(sc, t, v) in {"acc", "rej", "unspec"}   *)
(* and the documented normalisation Norm.  Shared by StoneRuntimeMC (C08)  *)
(* and StoneDefaultsMC (C10).                                              *)
(***************************************************************************)
EXTENDS StoneWire

\* --------------------------------------------------------- python-level values
PInt(r)    == [k |-> "int", r |-> r]
PBool(b)   == [k |-> "bool", b |-> b]
PFloat(r)  == [k |-> "float", r |-> r]
PFSpec(w)  == [k |-> "fspecial", w |-> w]        \* nan, inf, ninf
PBig       == [k |-> "bigint"]                   \* 10**400: no float can hold it
PStr(n, ok, u) == CStr(n, ok, u)
PBytes(n, id)  == CBytes(n, id)
PDt(tz)    == [k |-> "dt", tz |-> tz]            \* naive | utc | plus1
PDate      == [k |-> "date"]
PList(xs)  == [k |-> "list", items |-> xs]
PTuple(xs) == [k |-> "tuple", items |-> xs]
PDict(m)   == [k |-> "map", m |-> m]
PNone      == [k |-> "none"]
PObj(c)    == [k |-> "obj", c |-> c]             \* a valid instance of generated class c
PMemview   == [k |-> "memoryview"]
\* values that have a length but cannot be sliced or indexed: a set (of n integers) and a dict with n integer keys;
\* no Stone type accepts them, however many entries they have
\* sequences that are neither list nor tuple: range(n) (the integers 0..n-1) and a bytearray of the bytes 1, 2
PRange(n)  == [k |-> "range", n |-> n]
PByteArray == [k |-> "bytearray"]
PSet(n)    == [k |-> "set", n |-> n]
PIntDict(n) == [k |-> "intdict", n |-> n]
NotSet     == [k |-> "notset"]

\* --------------------------------------------------------- Accepts / Norm
\* verdicts: "acc", "rej", "unspec" (the documents leave it open)
Worst(rs) == IF "rej" \in rs THEN "rej" ELSE IF "unspec" \in rs THEN "unspec" ELSE "acc"
RECURSIVE Accepts(_, _, _), Norm(_, _, _)
Accepts(sc, t, v) ==
    CASE t.k = "nullable" -> IF v.k = "none" THEN "acc" ELSE Accepts(sc, t.e, v)
      [] t.k = "int"    ->
           CASE v.k = "int"  -> IF ILo(t) <= v.r /\ v.r <= IHi(t) THEN "acc" ELSE "rej"
             [] v.k = "bool" -> "unspec"          \* a Python bool is an int; not decided by the documents
             [] v.k = "bigint" -> "rej"
             [] OTHER        -> "rej"
      [] t.k = "float"  ->
           CASE v.k = "float" -> IF FLo(t) <= v.r /\ v.r <= FHi(t) THEN "acc" ELSE "rej"
             [] v.k = "int"   -> IF IntToFloatDefined(v.r)
                                 THEN (IF FLo(t) <= IntToFloat(v.r) /\ IntToFloat(v.r) <= FHi(t) THEN "acc" ELSE "rej")
                                 ELSE "unspec"    \* exact conversion not modelled
             [] v.k = "fspecial" -> "rej"         \* "finite float within range"
             [] v.k = "bigint" -> "rej"           \* no finite float
             [] v.k = "bool"  -> "unspec"
             [] OTHER         -> "rej"
      [] t.k = "str"    -> IF v.k = "str" THEN (IF LenOk(t, v.len) /\ PatOk(t, v) THEN "acc" ELSE "rej")
                           ELSE "rej"
      [] t.k = "bytes"  -> CASE v.k = "bytes" -> "acc" [] v.k = "memoryview" -> "unspec" [] OTHER -> "rej"
      [] t.k = "bool"   -> IF v.k = "bool" THEN "acc" ELSE "rej"
      [] t.k = "ts"     -> IF v.k = "dt" THEN (IF v.tz \in {"naive", "utc"} THEN "acc" ELSE "rej") ELSE "rej"
      [] t.k = "void"   -> IF v.k = "none" THEN "acc" ELSE "rej"
      [] t.k = "list"   ->
           IF v.k \notin {"list", "tuple"} THEN "rej"
           ELSE Worst({Accepts(sc, t.e, v.items[i]) : i \in DOMAIN v.items}
                      \cup {IF LenOk(t, Len(v.items)) THEN "acc" ELSE "rej"})
      [] t.k = "map"    ->
           IF v.k # "map" THEN "rej"
           ELSE Worst({Accepts(sc, t.v, v.m[key]) : key \in DOMAIN v.m} \cup {"acc"})
      [] t.k = "ref"    ->
           LET d == sc[t.n] IN
           CASE d.k = "alias"  -> Accepts(sc, d.t, v)
             [] d.k = "struct" -> IF v.k = "obj" /\ v.c \in DOMAIN sc /\ sc[v.c].k = "struct"
                                     /\ IsSubclass(sc, v.c, t.n) THEN "acc" ELSE "rej"
             [] d.k = "union"  -> IF v.k = "obj" /\ v.c \in DOMAIN sc /\ sc[v.c].k = "union"
                                     /\ IsSubclass(sc, t.n, v.c) THEN "acc" ELSE "rej"
\* the value stored / read back for an accepted v
Norm(sc, t, v) ==
    CASE t.k = "nullable" -> IF v.k = "none" THEN v ELSE Norm(sc, t.e, v)
      [] t.k = "float"  -> IF v.k = "int" THEN PFloat(IntToFloat(v.r)) ELSE v
      [] t.k = "list"   -> PList([i \in DOMAIN v.items |-> Norm(sc, t.e, v.items[i])])
      [] t.k = "map"    -> PDict([key \in DOMAIN v.m |-> Norm(sc, t.v, v.m[key])])
      [] t.k = "ref"    -> IF sc[t.n].k = "alias" THEN Norm(sc, sc[t.n].t, v) ELSE v
      [] OTHER          -> v

RECURSIVE ToP(_)
ToP(v) == CASE v.k = "struct" -> PObj(v.c) [] v.k = "union" -> PObj(v.c)
            [] v.k = "ts"   -> PDt("naive")
            [] v.k = "list" -> PList([i \in DOMAIN v.items |-> ToP(v.items[i])])
            [] v.k = "map"  -> PDict([key \in DOMAIN v.m |-> ToP(v.m[key])])
            [] OTHER -> v
=============================================================================

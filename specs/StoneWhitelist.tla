--------------------------- MODULE StoneWhitelist ---------------------------
(***************************************************************************)
(* C20: a route whitelist yields a dependency-closed, minimal API.         *)
(*                                                                         *)
(* A spec is a fixed skeleton of 10 data types, one alias and four routes  *)
(* in two namespaces whose dependency edges are individually switched on   *)
(* or off (set E): every edge kind of the property occurs -- field type    *)
(* directly and through List, Map, nullable and alias; parent; enumerated  *)
(* subtype; tag-default union; :type:, :field: and :route: doc references  *)
(* on a type, a field, a route and the namespace; route argument/result/   *)
(* error; across namespaces.                                               *)
(*   Closure(E, wl)   declarative: reachability from the seeds             *)
(*   Op(E, wl)        operational: the depth-first traversal with a `seen` *)
(*                    set of _find_dependencies_recursive                  *)
(* TLC explores every (E, whitelist) and checks ContainsSeeds, Closed,     *)
(* Minimal and OpAgrees; each state is replayed through                    *)
(* specs_to_ir(..., route_whitelist_filter=...) and python_types.          *)
(***************************************************************************)
EXTENDS Naturals, Sequences, FiniteSets, TLC, Json

CONSTANTS Shard, NShards, EmitVectors,
          Lo, Hi          \* edge sets explored: at most Lo or at least Hi edges switched on
VARIABLES E, wl, phase
vars == <<E, wl, phase>>

EdgeIds == {"doc_namesake", "doc_on_alias", "f_direct", "f_list", "f_map_nullable", "parent", "subtypes", "f_alias", "doc_type", "doc_field",
            "doc_route_on_type", "cross_ns", "tag_default", "doc_route_on_route", "ns_doc", "route_err",
            \* not a dependency edge but a way of writing the route signatures: r3, r4 and q1 name their type inside
            \* Map(String, .), List(Map(String, .)) and List(.)? as RESULT instead of naming it as argument.  Edges does
            \* not mention it: wrapping a type in containers does not change what a route depends on.
            "io_wrapped"}

\* T2 is a struct of nsb that is WRITTEN S7, like the struct S7 of nsa; the doc of T1's field is, letter for letter, the doc
\* of S3's field (":field:`S7.x`"): the same words mean nsb's S7 in nsb and nsa's S7 in nsa
Types  == {"S1", "S2", "S3", "S4", "S5", "S6", "S7", "S8", "U1", "T1", "T2"}
NsOf(n) == IF n \in {"T1", "T2", "q1"} THEN "nsb" ELSE "nsa"
\* q1 is the route of nsb; in the spec text it is WRITTEN r3, like the route r3 of nsa: a route is identified by its
\* namespace, name and version, not by name and version alone
Routes == {"r1", "r3", "q1", "r4"}

\* dependency edges of the skeleton under switch set e: <<from, to>>; nodes are type names,
\* "A1" (alias), route names, and "ns:nsa" (the namespace doc)
Edges(e) ==
    (IF "f_direct" \in e THEN {<<"S1", "S2">>} ELSE {}) \cup
    (IF "f_list" \in e THEN {<<"S1", "S3">>} ELSE {}) \cup
    (IF "f_map_nullable" \in e THEN {<<"S1", "S4">>} ELSE {}) \cup
    (IF "parent" \in e THEN {<<"S2", "S5">>} ELSE {}) \cup
    \* S5 enumerates its subtypes: S6 always extends S5 then, S2 is listed iff it extends S5
    (IF "subtypes" \in e THEN {<<"S5", "S6">>, <<"S6", "S5">>} \cup (IF "parent" \in e THEN {<<"S5", "S2">>} ELSE {}) ELSE {}) \cup
    (IF "f_alias" \in e THEN {<<"S3", "A1">>} ELSE {}) \cup
    {<<"A1", "S4">>} \cup
    (IF "doc_on_alias" \in e THEN {<<"A1", "S8">>} ELSE {}) \cup       \* the doc of alias A1 mentions :type:`S8`
    (IF "doc_type" \in e THEN {<<"S4", "S6">>} ELSE {}) \cup
    (IF "doc_field" \in e THEN {<<"S3", "S7">>} ELSE {}) \cup
    (IF "doc_namesake" \in e THEN {<<"T1", "T2">>} ELSE {}) \cup
    (IF "doc_route_on_type" \in e THEN {<<"U1", "r3">>} ELSE {}) \cup
    (IF "cross_ns" \in e THEN {<<"S8", "T1">>} ELSE {}) \cup
    (IF "tag_default" \in e THEN {<<"S6", "U1">>} ELSE {}) \cup
    (IF "doc_route_on_route" \in e THEN {<<"r1", "r4">>} ELSE {}) \cup
    (IF "ns_doc" \in e THEN {<<"ns:nsa", "S7">>} ELSE {}) \cup
    (IF "route_err" \in e THEN {<<"r1", "U1">>} ELSE {}) \cup
    {<<"r1", "S1">>, <<"r3", "S8">>, <<"q1", "T1">>, <<"r4", "S7">>}

\* ------------------------------------------------------------- whitelists
\* wl = [routes |-> set of route names or {"*nsa"}, types |-> set of type names]
Whitelists == {[routes |-> r, types |-> t] :
                 r \in {{"r1"}, {"r3"}, {"r1", "r3"}, {"q1"}, {"r1", "q1"}, {"*nsa"}, {"r4"}, {}},
                 t \in {{}, {"S3"}, {"S6"}, {"T1"}, {"S2", "S7"}}} \ {[routes |-> {}, types |-> {}]}
WlRoutes(w) == IF "*nsa" \in w.routes THEN {"r1", "r3", "r4"} ELSE w.routes
\* namespaces named by either whitelist: their namespace doc contributes seeds
WlNamespaces(w) == {NsOf(x) : x \in WlRoutes(w) \cup w.types}
Seeds(e, w) == WlRoutes(w) \cup w.types \cup (IF "nsa" \in WlNamespaces(w) THEN {"ns:nsa"} ELSE {})

\* ------------------------------------------------------------- declarative closure
RECURSIVE Reach(_, _, _)
Reach(e, frontier, acc) ==
    IF frontier = {} THEN acc
    ELSE LET nxt == {p[2] : p \in {q \in Edges(e) : q[1] \in frontier}} \ acc
         IN  Reach(e, nxt, acc \cup nxt)
Closure(e, w) == Reach(e, Seeds(e, w), Seeds(e, w))
RetTypes(e, w)  == Closure(e, w) \cap Types
RetRoutes(e, w) == Closure(e, w) \cap Routes

\* ------------------------------------------------------------- operational traversal
\* _find_dependencies_recursive: depth first with a seen set; a struct visits the types of ALL its
\* fields (inherited ones too), its parent, its doc references and its enumerated subtypes; a route
\* reached through a doc reference is output and its argument/result/error types are visited (its own
\* doc is not); the docs of whitelisted routes contribute data types only.
Succ(e, n) == {p[2] : p \in {q \in Edges(e) : q[1] = n}}
RECURSIVE Dfs(_, _, _)
\* st = [seen, types, routes]; visit node n
Dfs(e, n, st) ==
    IF n \in st.seen THEN st
    ELSE IF n \in Routes THEN
         \* route found in a doc reference: output it, visit its IO types only
         LET io == {x \in Succ(e, n) : x \notin Routes}
             RECURSIVE Fold(_, _)
             Fold(S, s) == IF S = {} THEN s ELSE LET x == CHOOSE y \in S : TRUE IN Fold(S \ {x}, Dfs(e, x, s))
         IN  Fold(io, [st EXCEPT !.routes = @ \cup {n}])
    ELSE LET st1 == [st EXCEPT !.seen = @ \cup {n}, !.types = IF n \in Types THEN @ \cup {n} ELSE @]
             RECURSIVE Fold2(_, _)
             Fold2(S, s) == IF S = {} THEN s ELSE LET x == CHOOSE y \in S : TRUE IN Fold2(S \ {x}, Dfs(e, x, s))
         IN  Fold2(Succ(e, n), st1)
OpSeeds(e, w) ==
    \* the IO types of the whitelisted routes, the data types (and the IO types of the routes) their
    \* docs mention, the namespace doc, the whitelisted data types
    UNION {{x \in Succ(e, r) : x \notin Routes} \cup
           UNION {{y \in Succ(e, r2) : y \notin Routes} : r2 \in {x \in Succ(e, r) : x \in Routes}} : r \in WlRoutes(w)}
    \cup w.types \cup (IF "nsa" \in WlNamespaces(w) THEN Succ(e, "ns:nsa") ELSE {})
Op(e, w) ==
    LET RECURSIVE Fold3(_, _)
        Fold3(S, s) == IF S = {} THEN s ELSE LET x == CHOOSE y \in S : TRUE IN Fold3(S \ {x}, Dfs(e, x, s))
        st == Fold3(OpSeeds(e, w), [seen |-> {}, types |-> {}, routes |-> {}])
        \* routes mentioned in the docs of the whitelisted routes are output as well
        docRoutes == UNION {{x \in Succ(e, r) : x \in Routes} : r \in WlRoutes(w)}
    IN  [types |-> st.types, routes |-> st.routes \cup WlRoutes(w) \cup docRoutes]

\* ------------------------------------------------------------- the machine
RECURSIVE SetToSeq(_)
SetToSeq(S) == IF S = {} THEN <<>> ELSE LET x == CHOOSE y \in S : TRUE IN <<x>> \o SetToSeq(S \ {x})
EdgeSeq == SetToSeq(EdgeIds)
\* shard by the position of the first switched-on edge (the empty set goes to shard 0)
First(e) == IF e = {} THEN 0 ELSE CHOOSE i \in DOMAIN EdgeSeq : EdgeSeq[i] \in e /\ \A j \in 1..(i - 1) : EdgeSeq[j] \notin e
RECURSIVE Weight(_)
Weight(e) == IF e = {} THEN 0 ELSE LET i == First(e) IN i + Weight(e \ {EdgeSeq[i]})
Init == /\ E \in {e \in SUBSET EdgeIds : (Cardinality(e) <= Lo \/ Cardinality(e) >= Hi) /\ Weight(e) % NShards = Shard}
        /\ wl = [routes |-> {}, types |-> {}] /\ phase = "spec"
Choose == /\ phase = "spec"
          /\ wl' \in Whitelists
          /\ phase' = "filtered"
          /\ UNCHANGED E
Next == Choose
Spec == Init /\ [][Next]_vars

\* ------------------------------------------------------------- properties
F == phase = "filtered"
ContainsSeeds == F => (WlRoutes(wl) \subseteq RetRoutes(E, wl) /\ wl.types \subseteq RetTypes(E, wl))
\* nothing retained points outside the retained set
Closed == F => \A p \in Edges(E) : (p[1] \in Closure(E, wl) /\ p[2] \in Types \cup Routes) => p[2] \in Closure(E, wl)
\* nothing is retained without a dependency path from a seed
Minimal == F => \A n \in RetTypes(E, wl) :
                   n \in Seeds(E, wl) \/ \E p \in Edges(E) : p[2] = n /\ p[1] \in Closure(E, wl)
\* the traversal of the implementation computes the closure
OpAgrees == F => (Op(E, wl).types = RetTypes(E, wl) /\ Op(E, wl).routes = RetRoutes(E, wl))

Vector == [edges |-> E, routes |-> wl.routes, types |-> wl.types,
           ret_types |-> RetTypes(E, wl), ret_routes |-> RetRoutes(E, wl),
           op_types |-> Op(E, wl).types, op_routes |-> Op(E, wl).routes]
Emit == IF EmitVectors /\ F THEN PrintT(<<"VEC", ToJson(Vector)>>) ELSE TRUE
=============================================================================

----------------------------- MODULE StoneWire -----------------------------
(***************************************************************************)
(* The wire format of docs/json_serializer.rst as TLA+ operators:          *)
(*   Valid(sc, t, v, perms)            is v a value of Stone type t         *)
(*   Enc(sc, t, v, perms)              the JSON document for v              *)
(*   Dec(sc, t, doc, strict, perms, devs)  ok(v) | err | unspec             *)
(*   Vals(sc, t, d, perms)             boundary-biased valid values         *)
(*   Tampers(doc)                      one-edit adversarial documents       *)
(* They are written from the documents (section titles quoted), not from   *)
(* stone_serializers.py.  `devs` enables the named, known departures of    *)
(* the implementation (DESIGN 2.4) so that their consequences are          *)
(* predicted exactly; the invariants are checked with devs = {}.           *)
(***************************************************************************)
EXTENDS StoneCore, StoneAnchors

\* ------------------------------------------------------------------ values
VNone            == [k |-> "none"]
VInt(r)          == [k |-> "int", r |-> r]
VFloat(r)        == [k |-> "float", r |-> r]
VStr(len, ok, u) == [k |-> "str", len |-> len, ok |-> ok, u |-> u]
VBytes(len, id)  == [k |-> "bytes", len |-> len, id |-> id]
VBool(b)         == [k |-> "bool", b |-> b]
VTs(id)          == [k |-> "ts", id |-> id]
VList(items)     == [k |-> "list", items |-> items]
VMap(m)          == [k |-> "map", m |-> m]
VStruct(c, f)    == [k |-> "struct", c |-> c, f |-> f]
VUnion(c, tag, v) == [k |-> "union", c |-> c, tag |-> tag, v |-> v]

EmptyFn == [x \in {} |-> VNone]
\* the empty string / byte string has one abstract form
CStr(len, ok, u) == IF len = 0 THEN VStr(0, TRUE, 0) ELSE VStr(len, ok, u)
CBytes(len, id)  == IF len = 0 THEN VBytes(0, 0) ELSE VBytes(len, id)

\* --------------------------------------------------------------- documents
JNull        == [k |-> "jnull"]
JBool(b)     == [k |-> "jbool", b |-> b]
JInt(r)      == [k |-> "jint", r |-> r]
JFloat(r)    == [k |-> "jfloat", r |-> r]
JStr(v)      == [k |-> "jstr", of |-> "str", v |-> v]      \* plain text
JB64(v)      == [k |-> "jstr", of |-> "b64", v |-> v]      \* base64 of bytes v
JTs(v, fmt)  == [k |-> "jstr", of |-> "ts", v |-> v, fmt |-> fmt]
JTagStr(s)   == [k |-> "jstr", of |-> "tag", s |-> s]      \* text equal to a tag name
JBad         == [k |-> "jstr", of |-> "bad"]               \* ASCII text that is no tag, no
                                                           \* base64, no timestamp, 5 chars
JNonAscii    == [k |-> "jstr", of |-> "nonascii"]          \* 3 non-ASCII characters, no tag
JArr(items)  == [k |-> "jarr", items |-> items]
JObj(m)      == [k |-> "jobj", m |-> m]
EncErr       == [k |-> "encerr"]
TagKey       == ".tag"

Ok(v)  == [k |-> "ok", v |-> v]
Err    == [k |-> "err"]
Unspec == [k |-> "unspec"]

\* ----------------------------------------------------------- effective bounds
ILo(t) == IF t.lo = Unset THEN IntLo(t.p) ELSE t.lo
IHi(t) == IF t.hi = Unset THEN IntHi(t.p) ELSE t.hi
FLo(t) == IF t.lo = Unset THEN FloatLo(t.p) ELSE t.lo
FHi(t) == IF t.hi = Unset THEN FloatHi(t.p) ELSE t.hi
\* the patterns of the universe (p1 = [a-c...]+) match no empty string
PatOk(t, v) == t.pat = "" \/ (v.ok /\ v.len > 0)
LenOk(t, n) == (t.min = Unset \/ n >= t.min) /\ (t.max = Unset \/ n <= t.max)
MinLen(t) == IF t.min = Unset THEN 0 ELSE t.min
MaxLen(t, dflt) == IF t.max = Unset THEN (IF MinLen(t) > dflt THEN MinLen(t) ELSE dflt) ELSE t.max

\* --------------------------------------------------------------- Valid
\* lang_ref "Basic Types" table + "Nullable Type" + "Struct Polymorphism" +
\* "Union/Inheritance" (a parent union value substitutes for the child).
RECURSIVE Valid(_, _, _, _)
ValidStructFields(sc, c, f, perms) ==
    LET fs == Visible(AllFields(sc, c), perms)
    IN  /\ DOMAIN f \subseteq SeqNames(fs)
        /\ \A i \in DOMAIN fs :
              IF fs[i].n \in DOMAIN f
              THEN f[fs[i].n].k # "none" /\ Valid(sc, fs[i].t, f[fs[i].n], perms)
              ELSE IsOptionalField(sc, fs[i])
Valid(sc, t, v, perms) ==
    CASE t.k = "int"    -> v.k = "int" /\ ILo(t) <= v.r /\ v.r <= IHi(t)
      [] t.k = "float"  -> v.k = "float" /\ FLo(t) <= v.r /\ v.r <= FHi(t)
      [] t.k = "str"    -> v.k = "str" /\ LenOk(t, v.len) /\ PatOk(t, v)
      [] t.k = "bytes"  -> v.k = "bytes" /\ LenOk(t, v.len)
      [] t.k = "bool"   -> v.k = "bool"
      [] t.k = "ts"     -> v.k = "ts"
      [] t.k = "void"   -> v.k = "none"
      [] t.k = "nullable" -> v.k = "none" \/ Valid(sc, t.e, v, perms)
      [] t.k = "list"   -> /\ v.k = "list" /\ LenOk(t, Len(v.items))
                           /\ \A i \in DOMAIN v.items : Valid(sc, t.e, v.items[i], perms)
      [] t.k = "map"    -> /\ v.k = "map"
                           /\ \A key \in DOMAIN v.m : Valid(sc, t.v, v.m[key], perms)
      [] t.k = "ref"    ->
           LET d == sc[t.n] IN
           CASE d.k = "alias"  -> Valid(sc, d.t, v, perms)
             [] d.k = "struct" -> /\ v.k = "struct" /\ IsSubclass(sc, v.c, t.n)
                                  /\ ValidStructFields(sc, v.c, v.f, perms)
             [] d.k = "union"  -> /\ v.k = "union"
                                  \* value of the union itself or of an ancestor
                                  /\ IsSubclass(sc, t.n, v.c)
                                  /\ v.tag \in TagNames(sc, v.c)
                                  /\ LET tg == TagByName(sc, v.c, v.tag)
                                     IN (tg.omit = "" \/ tg.omit \in perms)
                                        /\ Valid(sc, tg.t, v.v, perms)

\* --------------------------------------------------------------- Base / Vals
RECURSIVE Base(_, _), Some(_, _)
BaseFields(sc, c) ==
    LET fs  == AllFields(sc, c)
        req == {fs[i].n : i \in {j \in DOMAIN fs : IsRequiredField(sc, fs[j]) /\ fs[j].omit = ""}}
    IN  [n \in req |-> Base(sc, FieldByName(fs, n).t)]
Rep(n, x) == [i \in 1..n |-> x]
Base(sc, t) ==
    CASE t.k = "int"    -> VInt(ILo(t))
      [] t.k = "float"  -> VFloat(FLo(t))
      [] t.k = "str"    -> VStr(IF MinLen(t) > 1 THEN MinLen(t) ELSE 1, TRUE, 0)
      [] t.k = "bytes"  -> VBytes(IF MinLen(t) > 1 THEN MinLen(t) ELSE 1, 0)
      [] t.k = "bool"   -> VBool(TRUE)
      [] t.k = "ts"     -> VTs(0)
      [] t.k = "void"   -> VNone
      [] t.k = "nullable" -> VNone
      [] t.k = "list"   -> VList(Rep(MinLen(t), Base(sc, t.e)))
      [] t.k = "map"    -> VMap(EmptyFn)
      [] t.k = "ref"    ->
           LET d == sc[t.n] IN
           CASE d.k = "alias"  -> Base(sc, d.t)
             [] d.k = "struct" ->
                  IF d.subs = <<>> THEN VStruct(t.n, BaseFields(sc, t.n))
                  ELSE VStruct(d.subs[1].sub, BaseFields(sc, d.subs[1].sub))
             [] d.k = "union"  ->
                  LET tg == AllTagsDeclared(sc, t.n)[1]
                  IN  VUnion(t.n, tg.n, Base(sc, tg.t))
\* a non-null value
Some(sc, t) == LET u == Unalias(sc, t) IN IF u.k = "nullable" THEN Base(sc, u.e) ELSE Base(sc, t)

\* a value with everything set, to depth k: every field of every struct on the way,
\* the LAST declared tag of a union (where evolution appends), one list item, one map entry
RECURSIVE Full(_, _, _)
Full(sc, t, k) ==
    IF k = 0 THEN Some(sc, t) ELSE
    CASE t.k = "nullable" -> Full(sc, t.e, k)
      [] t.k = "list"   -> VList(Rep(IF MinLen(t) > 1 THEN MinLen(t) ELSE 1, Full(sc, t.e, k)))
      [] t.k = "map"    -> VMap("k1" :> Full(sc, t.v, k))
      [] t.k = "ref"    ->
           LET d == sc[t.n] IN
           (CASE d.k = "alias"  -> Full(sc, d.t, k)
             [] d.k = "struct" ->
                  LET c  == IF d.subs = <<>> THEN t.n ELSE d.subs[Len(d.subs)].sub
                      fs == Visible(AllFields(sc, c), {})
                      m  == [n \in SeqNames(fs) |-> Full(sc, FieldByName(fs, n).t, k - 1)]
                  IN  VStruct(c, [n \in {x \in SeqNames(fs) : m[x].k # "none"} |-> m[n]])
             [] d.k = "union"  ->
                  LET tgs == Visible(AllTagsDeclared(sc, t.n), {})
                      tg  == tgs[Len(tgs)]
                  IN  VUnion(t.n, tg.n, IF Unalias(sc, tg.t).k = "void" THEN VNone ELSE Full(sc, tg.t, k - 1)))
      [] OTHER -> Base(sc, t)

RECURSIVE Vals(_, _, _, _)
StructVals(sc, c, d, perms) ==
    LET fs   == Visible(AllFields(sc, c), perms)
        \* required fields visible to this caller must be set
        reqN == {fs[i].n : i \in {j \in DOMAIN fs : IsRequiredField(sc, fs[j])}}
        base == [n \in reqN |-> Some(sc, FieldByName(fs, n).t)]
        one  == UNION { { (fs[i].n :> x) @@ base :
                             x \in (Vals(sc, fs[i].t, d - 1, perms) \ {VNone}) }
                         : i \in DOMAIN fs }
        dfl  == { (fs[i].n :> fs[i].d) @@ base :
                     i \in {j \in DOMAIN fs : fs[j].d.k # "nodefault"} }
        all  == [n \in SeqNames(fs) |-> Some(sc, FieldByName(fs, n).t)]
    IN  {VStruct(c, f) : f \in ({base, all} \cup one \cup dfl)}
Vals(sc, t, d, perms) ==
    IF d = 0 THEN {Base(sc, t), Full(sc, t, 2)} ELSE
    CASE t.k = "int"    -> {VInt(r) : r \in {x \in {ILo(t), IHi(t), IZero} : ILo(t) <= x /\ x <= IHi(t)}}
      [] t.k = "float"  -> {VFloat(r) : r \in {x \in {FLo(t), FHi(t), FHalf} : FLo(t) <= x /\ x <= FHi(t)}}
      [] t.k = "str"    -> {CStr(IF t.pat # "" /\ MinLen(t) = 0 THEN 1 ELSE MinLen(t), TRUE, 0),
                            CStr(MaxLen(t, 3), TRUE, 1)}
      [] t.k = "bytes"  -> {CBytes(MinLen(t), 0), CBytes(MaxLen(t, 3), 1)}
      [] t.k = "bool"   -> {VBool(TRUE), VBool(FALSE)}
      [] t.k = "ts"     -> {VTs(0), VTs(1)}
      [] t.k = "void"   -> {VNone}
      [] t.k = "nullable" -> {VNone} \cup Vals(sc, t.e, d, perms)
      [] t.k = "list"   ->
           LET b  == Base(sc, t.e)
               ns == {MinLen(t), MaxLen(t, 2)} \cup {n \in {1} : LenOk(t, n)}
           IN  {VList(Rep(n, b)) : n \in ns} \cup
               {VList(Rep(n - 1, b) \o <<x>>) : n \in ns \ {0}, x \in Vals(sc, t.e, d, perms)}
      [] t.k = "map"    ->
           LET b == Some(sc, t.v)
           IN  {VMap(EmptyFn)} \cup
               {VMap("k1" :> x) : x \in Vals(sc, t.v, d, perms)} \cup
               {VMap(("k1" :> b) @@ ("k2" :> x)) : x \in Vals(sc, t.v, d, perms)}
      [] t.k = "ref"    ->
           LET df == sc[t.n] IN
           CASE df.k = "alias"  -> Vals(sc, df.t, d, perms)
             [] df.k = "struct" ->
                  IF df.subs = <<>> THEN StructVals(sc, t.n, d, perms)
                  ELSE UNION {StructVals(sc, s, d, perms) : s \in SubNames(sc, t.n)}
             [] df.k = "union"  ->
                  \* every declared tag the caller may use; the implicit
                  \* catch-all `other` is not a value a sender produces
                  LET tgs == Visible(AllTagsDeclared(sc, t.n), perms)
                  IN  UNION { {VUnion(t.n, tgs[i].n, x) : x \in Vals(sc, tgs[i].t, d - 1, perms)}
                              : i \in DOMAIN tgs }

\* --------------------------------------------------------------- Enc
\* json_serializer.rst "Primitive Types", "Struct", "Enumerated Subtypes",
\* "Union", "Nullable".
\* lang_ref "Redaction": with redaction requested the value of a field carrying a
\* redactor -- directly, or because its type is an alias marked at its definition --
\* is replaced item by item (list items, map values) by a redacted rendering.
JRed(red, v) == [k |-> "jred", red |-> red, v |-> v]
RedactVal(red, v) ==
    CASE v.k = "list" -> JArr([i \in DOMAIN v.items |-> JRed(red, v.items[i])])
      [] v.k = "map"  -> JObj([key \in DOMAIN v.m |-> JRed(red, v.m[key])])
      [] OTHER        -> JRed(red, v)
\* the redactor a type reference carries by being (an alias of) a marked alias
RECURSIVE RedOf(_, _)
RedOf(sc, t) ==
    IF t.k = "ref" /\ sc[t.n].k = "alias"
    THEN IF sc[t.n].red # "" THEN sc[t.n].red
         ELSE IF sc[t.n].t.k = "ref" THEN RedOf(sc, sc[t.n].t) ELSE ""
    ELSE ""

RECURSIVE EncX(_, _, _, _, _)
EncMember(sc, m, v, perms, rd) ==     \* a struct field or union tag m with value v
    IF rd /\ m.red # "" /\ v.k # "none" THEN RedactVal(m.red, v) ELSE EncX(sc, m.t, v, perms, rd)
EncFields(sc, c, f, perms, rd) ==
    LET fs == Visible(AllFields(sc, c), perms)
        ns == SeqNames(fs) \cap DOMAIN f
        missing == \E i \in DOMAIN fs : IsRequiredField(sc, fs[i]) /\ fs[i].n \notin DOMAIN f
    IN  IF missing THEN ("!" :> EncErr)
        ELSE [n \in ns |-> EncMember(sc, FieldByName(fs, n), f[n], perms, rd)]
EncX(sc, t, v, perms, rd) ==
    IF rd /\ RedOf(sc, t) # "" /\ v.k # "none" THEN RedactVal(RedOf(sc, t), v) ELSE
    CASE t.k = "nullable" -> IF v.k = "none" THEN JNull ELSE EncX(sc, t.e, v, perms, rd)
      [] t.k = "void"   -> JNull
      [] t.k = "int"    -> JInt(v.r)
      [] t.k = "float"  -> JFloat(v.r)
      [] t.k = "str"    -> JStr(v)
      [] t.k = "bytes"  -> JB64(v)
      [] t.k = "bool"   -> JBool(v.b)
      [] t.k = "ts"     -> JTs(v, t.fmt)
      [] t.k = "list"   -> JArr([i \in DOMAIN v.items |-> EncX(sc, t.e, v.items[i], perms, rd)])
      [] t.k = "map"    -> JObj([key \in DOMAIN v.m |-> EncX(sc, t.v, v.m[key], perms, rd)])
      [] t.k = "ref"    ->
           LET d == sc[t.n] IN
           CASE d.k = "alias"  -> EncX(sc, d.t, v, perms, rd)
             [] d.k = "struct" ->
                  IF d.subs = <<>>
                  THEN \* "A struct is represented as a JSON object. Each
                       \*  specified field has a key" / unset optional omitted
                       JObj(EncFields(sc, t.n, v.f, perms, rd))
                  ELSE \* "includes a .tag key to distinguish the type"
                       JObj((TagKey :> JTagStr(TagOfSub(sc, t.n, v.c))) @@
                            EncFields(sc, v.c, v.f, perms, rd))
             [] d.k = "union"  ->
                  LET tg == TagByName(sc, v.c, v.tag)
                      mt == Unalias(sc, tg.t)
                      ut == Under(sc, tg.t)
                  IN  IF ~(tg.omit = "" \/ tg.omit \in perms) THEN EncErr
                      ELSE IF mt.k = "void" \/ v.v.k = "none"
                      THEN JObj(TagKey :> JTagStr(v.tag))
                      ELSE IF IsPlainStruct(sc, ut) /\ ~(rd /\ RedOf(sc, tg.t) # "")
                      THEN \* "Union members that are ordinary structs
                           \*  serialize as the struct with the addition of
                           \*  a .tag key"
                           JObj((TagKey :> JTagStr(v.tag)) @@ EncFields(sc, ut.n, v.v.f, perms, rd))
                      ELSE JObj((TagKey :> JTagStr(v.tag)) @@ (v.tag :> EncMember(sc, tg, v.v, perms, rd)))
Enc(sc, t, v, perms) == EncX(sc, t, v, perms, FALSE)

\* json_serializer.rst "Nullable": a nullable struct member whose struct has
\* no field set is indistinguishable from null; "the deserializer should
\* return a null".  Canon applies exactly that identification.
RECURSIVE Canon(_, _)
Canon(sc, v) ==
    CASE v.k = "list"   -> VList([i \in DOMAIN v.items |-> Canon(sc, v.items[i])])
      [] v.k = "map"    -> VMap([key \in DOMAIN v.m |-> Canon(sc, v.m[key])])
      [] v.k = "struct" -> VStruct(v.c, [n \in DOMAIN v.f |-> Canon(sc, v.f[n])])
      [] v.k = "union"  ->
           LET tg == TagByName(sc, v.c, v.tag) IN
           IF IsNullable(sc, tg.t) /\ v.v.k = "struct" /\ IsPlainStruct(sc, Under(sc, tg.t))
              /\ EncFields(sc, v.v.c, v.v.f, {}, FALSE) = [x \in {} |-> JNull]
           THEN VUnion(v.c, v.tag, VNone)
           ELSE VUnion(v.c, v.tag, Canon(sc, v.v))
      [] OTHER          -> v

RECURSIVE HasEncErr(_)
HasEncErr(d) ==
    CASE d.k = "encerr" -> TRUE
      [] d.k = "jarr"   -> \E i \in DOMAIN d.items : HasEncErr(d.items[i])
      [] d.k = "jobj"   -> \E key \in DOMAIN d.m : HasEncErr(d.m[key])
      [] OTHER          -> FALSE
Encode(sc, t, v, perms) == LET d == Enc(sc, t, v, perms) IN IF HasEncErr(d) THEN EncErr ELSE d
EncodeX(sc, t, v, perms, rd) == LET d == EncX(sc, t, v, perms, rd) IN IF HasEncErr(d) THEN EncErr ELSE d

\* --------------------------------------------------------------- Dec
\* The reference validator/decoder for documents (Appendix B of DESIGN).
\* Result combination: a definite fault anywhere dominates; otherwise an
\* unspecified part makes the whole unspecified.
Combine(rs) == IF \E r \in rs : r.k = "err" THEN "err"
               ELSE IF \E r \in rs : r.k = "unspec" THEN "unspec" ELSE "ok"

RECURSIVE Dec(_, _, _, _, _, _)
\* a (non-nullable) reference to an ordinary struct none of whose fields is required
AllOptStruct(sc, t) ==
    LET u == Unalias(sc, t)
    IN  IsPlainStruct(sc, u) /\ \A i \in DOMAIN AllFields(sc, u.n) : IsOptionalField(sc, AllFields(sc, u.n)[i])
\* decode the keys of object m as the fields of struct c; tagOk says whether a
\* ".tag" key is expected here (union member / enumerated subtype)
DecFields(sc, c, m, strict, perms, devs, tagOk, cls) ==
    LET fs  == Visible(AllFields(sc, c), perms)
        ns  == SeqNames(fs)
        unk == {key \in DOMAIN m : key \notin ns /\ key # TagKey}
        r   == [n \in ns |->
                  LET f == FieldByName(fs, n) IN
                  IF n \in DOMAIN m
                  THEN IF m[n].k = "jnull"
                       THEN \* "An explicit null is allowed for fields with
                            \*  nullable types"; for a defaulted field "Setting
                            \*  name ... to null is not a valid serialization"
                            IF IsNullable(sc, f.t) THEN [k |-> "absent"]
                            ELSE IF "dev_allopt_default" \in devs /\ AllOptStruct(sc, f.t)
                            THEN Ok(VStruct(Under(sc, f.t).n, EmptyFn))
                            ELSE Err
                       ELSE Dec(sc, f.t, m[n], strict, perms, devs)
                  ELSE IF IsRequiredField(sc, f)
                       THEN \* departure: a required field whose type is a struct
                            \* without required fields is filled with an empty one
                            IF "dev_allopt_default" \in devs /\ AllOptStruct(sc, f.t)
                            THEN Ok(VStruct(Under(sc, f.t).n, EmptyFn))
                            ELSE Err
                       ELSE [k |-> "absent"]]
        rs  == {r[n] : n \in ns}
               \cup (IF strict /\ unk # {} THEN {Err} ELSE {})
               \cup (IF ~tagOk /\ TagKey \in DOMAIN m THEN {Unspec} ELSE {})
        c0  == Combine(rs)
        set == {n \in ns : r[n].k = "ok" /\ r[n].v.k # "none"}
    IN  IF c0 = "err" THEN Err ELSE IF c0 = "unspec" THEN Unspec
        ELSE Ok(VStruct(cls, [n \in set |-> r[n].v]))

DecUnionObj(sc, n, m, strict, perms, devs) ==
    IF TagKey \notin DOMAIN m THEN Err
    ELSE IF m[TagKey].k # "jstr" THEN Err
    ELSE IF m[TagKey].of # "tag" THEN
         \* some other text: an unknown tag
         IF ~strict /\ IsOpenUnion(sc, n) THEN Ok(VUnion(n, "other", VNone)) ELSE Err
    ELSE LET tn == m[TagKey].s
             known == tn \in TagNames(sc, n) /\
                      LET g == TagByName(sc, n, tn) IN (g.omit = "" \/ g.omit \in perms)
         IN
         IF ~known THEN (IF ~strict /\ IsOpenUnion(sc, n) THEN Ok(VUnion(n, "other", VNone)) ELSE Err)
         ELSE IF tn = "other" THEN Err             \* catch-all named explicitly
         ELSE
         LET tg  == TagByName(sc, n, tn)
             mt  == Unalias(sc, tg.t)
             ut  == Under(sc, tg.t)
             nul == mt.k = "nullable"
             extra == DOMAIN m \ {TagKey, tn}
         IN
         IF mt.k = "void" THEN
              IF strict
              THEN IF extra # {} THEN Err
                   ELSE IF tn \in DOMAIN m
                        THEN (IF m[tn].k = "jnull" THEN Unspec   \* {".tag": t, t: null}: not described
                              ELSE Err)                          \* evolve_spec: a Void tag has no value
                   
                   ELSE Ok(VUnion(n, tn, VNone))
              ELSE Ok(VUnion(n, tn, VNone))              \* payload ignored (evolve_spec)
         ELSE IF IsPlainStruct(sc, ut) THEN
              IF nul /\ DOMAIN m = {TagKey} THEN Ok(VUnion(n, tn, VNone))
              ELSE LET r == DecFields(sc, ut.n, m, strict, perms, devs, TRUE, ut.n)
                   IN  IF r.k = "ok" THEN Ok(VUnion(n, tn, r.v)) ELSE r
         ELSE \* primitive, list, map, union, enumerated-subtype struct: nested
              IF tn \in DOMAIN m /\ nul /\ m[tn].k = "jnull"
              THEN Unspec      \* the documented null form of a nullable member is the tag alone
              ELSE IF tn \in DOMAIN m
              THEN LET r == Dec(sc, tg.t, m[tn], strict, perms, devs)
                   IN  IF r.k = "err" THEN Err
                       ELSE IF extra # {} THEN (IF strict THEN Err ELSE Unspec)
                       ELSE IF r.k = "ok" THEN Ok(VUnion(n, tn, r.v)) ELSE r
              ELSE IF nul THEN (IF extra # {} THEN (IF strict THEN Err ELSE Unspec)
                                ELSE Ok(VUnion(n, tn, VNone)))
                   ELSE Err

Dec(sc, t, doc, strict, perms, devs) ==
    CASE t.k = "nullable" -> IF doc.k = "jnull" THEN Ok(VNone) ELSE Dec(sc, t.e, doc, strict, perms, devs)
      [] t.k = "int"    ->
           CASE doc.k = "jint"  -> IF ILo(t) <= doc.r /\ doc.r <= IHi(t) THEN Ok(VInt(doc.r)) ELSE Err
             [] doc.k = "jbool" -> Unspec
             [] OTHER           -> Err             \* jfloat docs are non-integral by construction
      [] t.k = "float"  ->
           CASE doc.k = "jfloat" -> IF FLo(t) <= doc.r /\ doc.r <= FHi(t) THEN Ok(VFloat(doc.r)) ELSE Err
             [] doc.k = "jint"   -> IF IntToFloatDefined(doc.r)
                                    THEN (IF FLo(t) <= IntToFloat(doc.r) /\ IntToFloat(doc.r) <= FHi(t)
                                          THEN Ok(VFloat(IntToFloat(doc.r))) ELSE Err)
                                    ELSE Unspec
             [] doc.k = "jbool"  -> Unspec
             [] OTHER            -> Err
      [] t.k = "str"    ->
           IF doc.k # "jstr" THEN Err
           ELSE CASE doc.of = "str" -> IF LenOk(t, doc.v.len) /\ PatOk(t, doc.v) THEN Ok(doc.v) ELSE Err
                  [] doc.of = "bad" -> IF LenOk(t, 5) /\ t.pat = "" THEN Unspec ELSE Err
                  [] doc.of = "nonascii" -> IF LenOk(t, 3) /\ t.pat = "" THEN Unspec ELSE Err
                  [] OTHER          -> Unspec
      [] t.k = "bytes"  ->
           IF doc.k # "jstr" THEN Err
           ELSE CASE doc.of = "b64" -> IF LenOk(t, doc.v.len) THEN Ok(doc.v) ELSE Err
                  [] doc.of \in {"bad", "nonascii"} -> Err
                  [] OTHER          -> Unspec
      [] t.k = "bool"   -> IF doc.k = "jbool" THEN Ok(VBool(doc.b)) ELSE Err
      [] t.k = "ts"     ->
           IF doc.k # "jstr" THEN Err
           ELSE CASE doc.of = "ts"  -> IF doc.fmt = t.fmt THEN Ok(doc.v) ELSE Unspec
                  [] doc.of \in {"bad", "nonascii"} -> Err
                  [] OTHER          -> Unspec
      [] t.k = "void"   -> IF doc.k = "jnull" THEN Ok(VNone) ELSE (IF strict THEN Err ELSE Unspec)
      [] t.k = "list"   ->
           IF doc.k # "jarr" THEN Err
           ELSE LET r == [i \in DOMAIN doc.items |-> Dec(sc, t.e, doc.items[i], strict, perms, devs)]
                    c0 == Combine({r[i] : i \in DOMAIN r} \cup
                                  (IF LenOk(t, Len(doc.items)) THEN {} ELSE {Err}))
                IN  IF c0 = "err" THEN Err ELSE IF c0 = "unspec" THEN Unspec
                    ELSE Ok(VList([i \in DOMAIN r |-> r[i].v]))
      [] t.k = "map"    ->
           IF doc.k # "jobj" THEN Err
           ELSE LET r == [key \in DOMAIN doc.m |-> Dec(sc, t.v, doc.m[key], strict, perms, devs)]
                    c0 == Combine({r[key] : key \in DOMAIN r})
                IN  IF c0 = "err" THEN Err ELSE IF c0 = "unspec" THEN Unspec
                    ELSE Ok(VMap([key \in DOMAIN r |-> r[key].v]))
      [] t.k = "ref"    ->
           LET d == sc[t.n] IN
           CASE d.k = "alias"  -> Dec(sc, d.t, doc, strict, perms, devs)
             [] d.k = "struct" ->
                  IF doc.k # "jobj"
                  THEN \* "a value of the wrong JSON kind"; departure: null is read as
                       \* an empty struct when no field of the struct is required
                       IF doc.k = "jnull" /\ "dev_allopt_default" \in devs /\ AllOptStruct(sc, t)
                       THEN Ok(VStruct(t.n, EmptyFn)) ELSE Err
                  ELSE IF d.subs = <<>>
                  THEN DecFields(sc, t.n, doc.m, strict, perms, devs, FALSE, t.n)
                  ELSE \* "Enumerated Subtypes"
                       IF TagKey \notin DOMAIN doc.m THEN Err
                       ELSE IF doc.m[TagKey].k # "jstr" THEN Err
                       ELSE IF doc.m[TagKey].of = "tag" /\ doc.m[TagKey].s \in SubTags(sc, t.n)
                       THEN LET s == SubOfTag(sc, t.n, doc.m[TagKey].s)
                            IN  DecFields(sc, s, doc.m, strict, perms, devs, TRUE, s)
                       ELSE \* unknown subtype: "fallback to the parent type if
                            \*  it's specified as a catch-all"
                            IF ~strict /\ d.catchall
                            THEN DecFields(sc, t.n, doc.m, strict, perms, devs, TRUE, t.n)
                            ELSE Err
             [] d.k = "union"  ->
                  CASE doc.k = "jobj" -> DecUnionObj(sc, t.n, doc.m, strict, perms, devs)
                    [] doc.k = "jstr" ->
                         \* "Compact Form": the tag itself as a string, for void members
                         IF doc.of # "tag"
                         THEN (IF ~strict /\ IsOpenUnion(sc, t.n) THEN Ok(VUnion(t.n, "other", VNone)) ELSE Err)
                         ELSE LET tn == doc.s
                                  known == tn \in TagNames(sc, t.n) /\
                                           LET g == TagByName(sc, t.n, tn) IN (g.omit = "" \/ g.omit \in perms)
                              IN  IF ~known
                                  THEN (IF ~strict /\ IsOpenUnion(sc, t.n) THEN Ok(VUnion(t.n, "other", VNone)) ELSE Err)
                                  ELSE IF tn = "other" THEN Err
                                  ELSE LET mt == Unalias(sc, TagByName(sc, t.n, tn).t)
                                       IN  IF mt.k = "void" THEN Ok(VUnion(t.n, tn, VNone))
                                           ELSE IF mt.k = "nullable" THEN Unspec
                                           ELSE Err
                    [] OTHER -> Err

\* --------------------------------------------------------------- Tampers
\* One structural edit anywhere in a document (DESIGN 3.5 `Tamper`).
Kinds == {JNull, JBool(TRUE), JInt(IZero), JFloat(FHalf), JBad, JNonAscii,
          JArr(<<>>), JObj([x \in {} |-> JNull])}
RemoveKey(m, key) == [x \in DOMAIN m \ {key} |-> m[x]]
RemoveAt(s, i)    == [j \in 1..(Len(s) - 1) |-> IF j < i THEN s[j] ELSE s[j + 1]]
RECURSIVE Tampers(_, _)
Tampers(d, tagPool) ==
    LET here == {x \in Kinds : x.k # d.k \/ (d.k = "jstr" /\ x.of # d.of)} \cup
                (CASE d.k = "jint"   -> {JInt(r) : r \in {d.r - 1, d.r + 1} \cap IntRanks}
                   [] d.k = "jfloat" -> {JFloat(r) : r \in ({d.r - 1, d.r + 1} \cap FloatRanks) \ {8, 10, 12, 13, 14, 3, 4, 6}}
                   [] d.k = "jstr"   ->
                        (CASE d.of = "str" -> {JStr(CStr(n, d.v.ok, d.v.u)) : n \in {d.v.len - 1, d.v.len + 1} \cap 0..9}
                                              \cup {JStr(CStr(d.v.len, FALSE, d.v.u))}
                           [] d.of = "b64" -> {JB64(CBytes(n, d.v.id)) : n \in {d.v.len - 1, d.v.len + 1} \cap 0..9}
                           [] d.of = "tag" -> {JTagStr(s) : s \in tagPool \ {d.s}}
                           [] OTHER        -> {})
                   [] d.k = "jarr"   -> {JArr(RemoveAt(d.items, i)) : i \in DOMAIN d.items}
                                        \cup (IF d.items = <<>> THEN {} ELSE {JArr(d.items \o <<d.items[1]>>)})
                   [] d.k = "jobj"   -> {JObj(RemoveKey(d.m, key)) : key \in DOMAIN d.m}
                                        \cup {JObj(d.m @@ ("zz" :> JInt(IZero)))}
                                        \cup (IF TagKey \in DOMAIN d.m THEN {}
                                              ELSE {JObj(d.m @@ (TagKey :> JTagStr(s))) : s \in {"zz"}})
                   [] OTHER          -> {})
        deep == CASE d.k = "jarr" -> UNION {{JArr([d.items EXCEPT ![i] = x]) : x \in Tampers(d.items[i], tagPool)}
                                            : i \in DOMAIN d.items}
                  [] d.k = "jobj" -> UNION {{JObj([d.m EXCEPT ![key] = x]) : x \in Tampers(d.m[key], tagPool)}
                                            : key \in DOMAIN d.m}
                  [] OTHER        -> {}
    IN  here \cup deep

=============================================================================

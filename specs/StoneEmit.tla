------------------------------ MODULE StoneEmit ------------------------------
(***************************************************************************)
(* C18: backends write only inside the output folder, verbatim, as the     *)
(* manifest says.  Three machines over one file-system variable:           *)
(*  Mode "paths":  a path of segments {name, ".", "..", "", unicode},      *)
(*     absolute or relative, with or without trailing slash, resolved by a *)
(*     segment stack as os.path.abspath does; Contained / RefusedBefore.   *)
(*  Mode "emit":   the emitter: buffer of chunks, indent stack,            *)
(*     placeholders, brace escaping and str.format at close (operational)  *)
(*     against the lines a reference pretty-printer produces (declarative):*)
(*     Verbatim; Escape/Format are transcribed character by character.     *)
(*  Mode "manifest": scripts of open/copy operations run for real and as a *)
(*     manifest run: ManifestFidelity.                                     *)
(* Text is a sequence over the alphabet Chars (braces, format-like         *)
(* sequences, a backslash, non-ASCII).                                     *)
(***************************************************************************)
EXTENDS Naturals, Sequences, FiniteSets, TLC, Json

CONSTANTS Mode, MaxOps, Shard, NShards, EmitVectors
VARIABLES script, path
vars == <<script, path>>

RECURSIVE SetToSeq(_)
SetToSeq(S) == IF S = {} THEN <<>> ELSE LET x == CHOOSE y \in S : TRUE IN <<x>> \o SetToSeq(S \ {x})
RECURSIVE Flat(_)
Flat(ss) == IF ss = <<>> THEN <<>> ELSE Head(ss) \o Flat(Tail(ss))
Rep(n, x) == [i \in 1..n |-> x]

\* ============================================================= paths
Segs == {"n", "m", ".", "..", "", "u", "o+"}    \* "u" is a non-ASCII name; "o+" is the output folder's own name with a suffix
                                                \* (../out_old is beside /T/out although "/T/out" is a PREFIX of its text)
Paths == {[abs |-> a, segs |-> s, slash |-> t] :
            a \in {"rel", "root", "inroot", "sibling"},   \* relative | "/abs/.." | abs path below the root | abs path beside it
            s \in UNION {[1..k -> Segs] : k \in 1..3}, t \in BOOLEAN}
\* the output root is /T/out; resolution as os.path.abspath: "" and "." vanish, ".." pops
RootStack == <<"T", "out">>
RECURSIVE Norm(_, _)
Norm(stack, segs) ==
    IF segs = <<>> THEN stack
    ELSE LET h == Head(segs) IN
         Norm(IF h \in {"", "."} THEN stack
              ELSE IF h = ".." THEN (IF stack = <<>> THEN <<>> ELSE SubSeq(stack, 1, Len(stack) - 1))
              ELSE Append(stack, h), Tail(segs))
StartOf(p) == CASE p.abs = "rel" -> RootStack [] p.abs = "root" -> <<>> [] p.abs = "inroot" -> RootStack
                [] p.abs = "sibling" -> <<"T", "o+">>
Resolved(p) == Norm(StartOf(p), p.segs)
IsPrefix(a, b) == Len(a) <= Len(b) /\ SubSeq(b, 1, Len(a)) = a
Inside(p) == IsPrefix(RootStack, Resolved(p))
\* a proper file: strictly below the root, not written as a directory, last segment a name
\* the directories the path names on its way (they have to exist before the file is opened)
Visited(p) == {Norm(StartOf(p), SubSeq(p.segs, 1, k)) : k \in 0..(Len(p.segs) - 1)}
\* ... and the target is not one of the directories the path itself walks through (`n/../n`)
FileLike(p) == /\ Inside(p) /\ Len(Resolved(p)) > Len(RootStack) /\ ~p.slash /\ p.segs[Len(p.segs)] \in {"n", "m", "u", "o+"}
               /\ Resolved(p) \notin Visited(p)
\* verdict the documents prescribe
PathVerdict(p) == IF ~Inside(p) THEN "refused"          \* before anything is written, anywhere
                  ELSE IF FileLike(p) THEN "written"     \* at Resolved(p), inside the root
                  ELSE "no_file"                         \* the root itself / a directory: nothing may appear outside

\* ============================================================= text, Escape, Format
Chars == {"a", " ", "{", "}", "0", "x", "%", "e", "b"}      \* e = e-acute, b = backslash (rendered by the harness)
Texts == { <<"a">>, <<"a", " ", "a">>, <<"{">>, <<"}">>, <<"{", "}">>, <<"{", "0", "}">>, <<"{", "x", "}">>,
           <<"{", "{">>, <<"}", "}", "a">>, <<"%", "x">>, <<"e", "b", "a">>, <<"a", "{", "a", "}", "a">>, <<>> }
Escape(s) == Flat([i \in DOMAIN s |-> IF s[i] = "{" THEN <<"{", "{">> ELSE IF s[i] = "}" THEN <<"}", "}">> ELSE <<s[i]>>])
\* str.format: "{{" -> "{", "}}" -> "}", "{name}" -> the placeholder, anything else with a brace fails
RECURSIVE Format(_, _, _)
Format(t, pos, named) ==       \* returns [ok, s, pos]; pos = remaining positional placeholders
    IF t = <<>> THEN [ok |-> TRUE, s |-> <<>>]
    ELSE LET c == Head(t) IN
         IF c = "{" THEN
              IF Len(t) >= 2 /\ t[2] = "{" THEN LET r == Format(SubSeq(t, 3, Len(t)), pos, named)
                                                IN  IF r.ok THEN [ok |-> TRUE, s |-> <<"{">> \o r.s] ELSE r
              ELSE IF Len(t) >= 2 /\ t[2] = "}" THEN        \* "{}" : next positional
                   IF pos = <<>> THEN [ok |-> FALSE, s |-> <<>>]
                   ELSE LET r == Format(SubSeq(t, 3, Len(t)), Tail(pos), named)
                        IN  IF r.ok THEN [ok |-> TRUE, s |-> Head(pos) \o r.s] ELSE r
              ELSE IF Len(t) >= 3 /\ t[3] = "}" /\ t[2] \in DOMAIN named THEN
                   LET r == Format(SubSeq(t, 4, Len(t)), pos, named)
                   IN  IF r.ok THEN [ok |-> TRUE, s |-> named[t[2]] \o r.s] ELSE r
              ELSE [ok |-> FALSE, s |-> <<>>]
         ELSE IF c = "}" THEN
              IF Len(t) >= 2 /\ t[2] = "}" THEN LET r == Format(SubSeq(t, 3, Len(t)), pos, named)
                                                IN  IF r.ok THEN [ok |-> TRUE, s |-> <<"}">> \o r.s] ELSE r
              ELSE [ok |-> FALSE, s |-> <<>>]
         ELSE LET r == Format(Tail(t), pos, named) IN IF r.ok THEN [ok |-> TRUE, s |-> <<c>> \o r.s] ELSE r

\* ============================================================= emit scripts
\* operations (one file is open throughout)
OEmit(s)      == [op |-> "emit", s |-> s]                \* indentation + s + newline (empty s: bare newline)
ORaw(s)       == [op |-> "raw", s |-> s]                 \* s + newline, no indentation
OIndent       == [op |-> "indent"]                       \* enter `with indent()`
OBlock(b)     == [op |-> "block", before |-> b]          \* enter block(before, delim=("{","}")): "before {" ... "}"
OPop          == [op |-> "pop"]                          \* leave the innermost context
OHolder(n)    == [op |-> "holder", n |-> n]              \* emit_placeholder(n); n = "" positional
OFill(n, s)   == [op |-> "fill", n |-> n, s |-> s]       \* add_named_placeholder / add_positional_placeholder
OList(k, c)   == [op |-> "list", k |-> k, compact |-> c] \* generate_multiline_list of k items, before "f", delim ("(", ")")
NL == "\n"
Ops == {OEmit(s) : s \in Texts} \cup {ORaw(s) : s \in Texts \ {<<>>}} \cup {OIndent, OBlock(<<"a">>), OPop}
       \cup {OHolder("x"), OHolder(""), OFill("x", <<"{", "a">>), OFill("", <<"}", "e">>),
             \* registered text with adjacent braces: it is substituted as it is, never un-escaped
             OFill("x", <<"{", "{", "a", "}", "}">>), OFill("", <<"}", "}", "{", "{">>)}
       \cup {OList(k, c) : k \in 0..3, c \in BOOLEAN}

\* --- operational: the buffer machine of stone/backend.py
Pad(n) == Rep(n, " ")
BufSt(out, ind, pos, named, depth) == [out |-> out, ind |-> ind, pos |-> pos, named |-> named, stack |-> depth]
EmitLine(st, s) == IF s = <<>> THEN [st EXCEPT !.out = @ \o <<NL>>]
                   ELSE [st EXCEPT !.out = @ \o Escape(Pad(st.ind) \o s) \o <<NL>>]
Item(i) == <<"a", "0">>          \* every list item is the text a0 (the harness uses the same)
RECURSIVE EmitAll(_, _)
EmitAll(st, ls) == IF ls = <<>> THEN st ELSE EmitAll(EmitLine(st, Head(ls)), Tail(ls))
ListLines(k, compact) ==      \* before = "f", delim = ("(", ")"), sep = ",", after = ""
    IF k = 0 THEN << [ind |-> 0, s |-> <<"a", "(", ")">>] >>
    ELSE IF k = 1 THEN << [ind |-> 0, s |-> <<"a", "(">> \o Item(1) \o <<")">>] >>
    ELSE IF compact
         THEN << [ind |-> 0, s |-> <<"a", "(">> \o Item(1) \o <<"%">>] >> \o
              [i \in 1..(k - 1) |-> [ind |-> 2, s |-> Item(i + 1) \o (IF i = k - 1 THEN <<")">> ELSE <<"%">>)]]
         ELSE << [ind |-> 0, s |-> <<"a", "(">>] >> \o
              [i \in 1..k |-> [ind |-> 4, s |-> Item(i) \o <<"%">>]] \o << [ind |-> 0, s |-> <<")">>] >>
\* ("%" stands for the separator "," which is not in Chars; the harness renders it so)
Step(st, o) ==
    CASE o.op = "emit"   -> EmitLine(st, o.s)
      [] o.op = "raw"    -> [st EXCEPT !.out = @ \o Escape(o.s) \o <<NL>>]
      [] o.op = "indent" -> [st EXCEPT !.ind = @ + 4, !.stack = Append(@, "i")]
      [] o.op = "block"  -> LET s1 == EmitLine(st, o.before \o <<" ", "{">>) IN [s1 EXCEPT !.ind = @ + 4, !.stack = Append(@, "b")]
      [] o.op = "pop"    -> IF st.stack = <<>> THEN st
                            ELSE LET s1 == [st EXCEPT !.ind = @ - 4, !.stack = SubSeq(@, 1, Len(@) - 1)]
                                 IN  IF st.stack[Len(st.stack)] = "b" THEN EmitLine(s1, <<"}">>) ELSE s1
      [] o.op = "holder" -> [st EXCEPT !.out = @ \o <<"{">> \o (IF o.n = "" THEN <<>> ELSE <<o.n>>) \o <<"}">>]
      [] o.op = "fill"   -> IF o.n = "" THEN [st EXCEPT !.pos = Append(@, o.s)] ELSE [st EXCEPT !.named = (o.n :> o.s) @@ @]
      [] o.op = "list"   -> LET ls == ListLines(o.k, o.compact)
                                RECURSIVE Go(_, _)
                                Go(s0, i) == IF i > Len(ls) THEN s0
                                             ELSE Go(EmitLine([s0 EXCEPT !.ind = st.ind + ls[i].ind], ls[i].s), i + 1)
                            IN  [Go(st, 1) EXCEPT !.ind = st.ind]
RECURSIVE RunOps(_, _)
RunOps(st, ops) == IF ops = <<>> THEN st ELSE RunOps(Step(st, Head(ops)), Tail(ops))
EmptyNamed == [x \in {} |-> <<>>]
\* contexts still open when the file is closed are left (innermost first)
RECURSIVE CloseAll(_)
CloseAll(st) == IF st.stack = <<>> THEN st ELSE CloseAll(Step(st, OPop))
OpFile(ops) == LET st == CloseAll(RunOps(BufSt(<<>>, 0, <<>>, EmptyNamed, <<>>), ops)) IN Format(st.out, st.pos, st.named)

\* --- declarative: the reference pretty-printer
\* lines with their indentation; placeholders are resolved at the end by name / position
RefSt(out, ind, depth, holders) == [out |-> out, ind |-> ind, stack |-> depth, holders |-> holders]
RefLine(st, s) == IF s = <<>> THEN [st EXCEPT !.out = Append(@, [k |-> "text", s |-> <<NL>>])]
                  ELSE [st EXCEPT !.out = Append(@, [k |-> "text", s |-> Pad(st.ind) \o s \o <<NL>>])]
RefStep(st, o) ==
    CASE o.op = "emit"   -> RefLine(st, o.s)
      [] o.op = "raw"    -> [st EXCEPT !.out = Append(@, [k |-> "text", s |-> o.s \o <<NL>>])]
      [] o.op = "indent" -> [st EXCEPT !.ind = @ + 4, !.stack = Append(@, "i")]
      [] o.op = "block"  -> LET s1 == RefLine(st, o.before \o <<" ", "{">>) IN [s1 EXCEPT !.ind = @ + 4, !.stack = Append(@, "b")]
      [] o.op = "pop"    -> IF st.stack = <<>> THEN st
                            ELSE LET s1 == [st EXCEPT !.ind = @ - 4, !.stack = SubSeq(@, 1, Len(@) - 1)]
                                 IN  IF st.stack[Len(st.stack)] = "b" THEN RefLine(s1, <<"}">>) ELSE s1
      [] o.op = "holder" -> [st EXCEPT !.out = Append(@, [k |-> "holder", n |-> o.n])]
      [] o.op = "fill"   -> st
      [] o.op = "list"   -> LET ls == ListLines(o.k, o.compact)
                                RECURSIVE Go(_, _)
                                Go(s0, i) == IF i > Len(ls) THEN s0
                                             ELSE Go(RefLine([s0 EXCEPT !.ind = st.ind + ls[i].ind], ls[i].s), i + 1)
                            IN  [Go(st, 1) EXCEPT !.ind = st.ind]
RECURSIVE RefRun(_, _)
RefRun(st, ops) == IF ops = <<>> THEN st ELSE RefRun(RefStep(st, Head(ops)), Tail(ops))
\* registered texts: named -> last registration wins; positional in registration order
NamedOf(ops) == LET idx == {i \in DOMAIN ops : ops[i].op = "fill" /\ ops[i].n # ""}
                IN  [n \in {ops[i].n : i \in idx} |->
                        ops[CHOOSE i \in idx : ops[i].n = n /\ \A j \in idx : ops[j].n = n => j <= i].s]
PosOf(ops) == LET s == SelectSeq(ops, LAMBDA o : o.op = "fill" /\ o.n = "") IN [i \in DOMAIN s |-> s[i].s]
RECURSIVE Resolve(_, _, _)
Resolve(out, pos, named) ==
    IF out = <<>> THEN [ok |-> TRUE, s |-> <<>>]
    ELSE LET h == Head(out) IN
         IF h.k = "text" THEN LET r == Resolve(Tail(out), pos, named) IN IF r.ok THEN [ok |-> TRUE, s |-> h.s \o r.s] ELSE r
         ELSE IF h.n = "" THEN (IF pos = <<>> THEN [ok |-> FALSE, s |-> <<>>]
                                ELSE LET r == Resolve(Tail(out), Tail(pos), named)
                                     IN  IF r.ok THEN [ok |-> TRUE, s |-> Head(pos) \o r.s] ELSE r)
         ELSE IF h.n \in DOMAIN named THEN LET r == Resolve(Tail(out), pos, named)
                                           IN  IF r.ok THEN [ok |-> TRUE, s |-> named[h.n] \o r.s] ELSE r
         ELSE [ok |-> FALSE, s |-> <<>>]
RECURSIVE RefCloseAll(_)
RefCloseAll(st) == IF st.stack = <<>> THEN st ELSE RefCloseAll(RefStep(st, OPop))
RefFile(ops) == Resolve(RefCloseAll(RefRun(RefSt(<<>>, 0, <<>>, <<>>), ops)).out, PosOf(ops), NamedOf(ops))

\* ============================================================= manifest scripts
\* files are named n, k, c, s; the only directory name is m (a name is never both)
MOps == {[op |-> "open", p |-> p] : p \in {<<"n">>, <<"m", "n">>, <<"m", "..", "k">>, <<"..", "x">>}}
        \cup {[op |-> "copy", p |-> p] : p \in {<<"c">>, <<".", "c">>, <<"..", "x">>}}
        \cup {[op |-> "swift", p |-> p] : p \in {<<"s">>, <<"..", "x">>}}
MPath(p) == [abs |-> "rel", segs |-> p, slash |-> FALSE]
\* files a real run creates / a manifest run reports, up to the first refused request
RECURSIVE RunM(_, _)
RunM(ops, acc) == IF ops = <<>> THEN [files |-> acc, refused |-> FALSE]
                  ELSE IF ~Inside(MPath(Head(ops).p)) THEN [files |-> acc, refused |-> TRUE]
                  ELSE RunM(Tail(ops), acc \cup {Resolved(MPath(Head(ops).p))})
RealFiles(ops) == RunM(ops, {})
Manifest(ops)  == RunM(ops, {})        \* the same function: that is the property

\* ============================================================= the machine
Init == /\ script = <<>>
        /\ path = IF Mode = "paths" THEN CHOOSE p \in Paths : TRUE ELSE [abs |-> "rel", segs |-> <<"n">>, slash |-> FALSE]
PickPath == /\ Mode = "paths" /\ script = <<>>
            /\ path' \in Paths
            /\ script' = <<[op |-> "path"]>>
AddOp == /\ Mode \in {"emit", "manifest"} /\ Len(script) < MaxOps
         /\ \E o \in (IF Mode = "emit" THEN Ops ELSE MOps) : script' = Append(script, o)
         /\ UNCHANGED path
Next == PickPath \/ AddOp
Spec == Init /\ [][Next]_vars

\* ============================================================= properties
\* Escape then Format is the identity, on every text, and never fails
EscapeFormatIdentity == \A s \in Texts : Format(Escape(s), <<>>, EmptyNamed) = [ok |-> TRUE, s |-> s]
\* the buffer machine (escape on emit, str.format at close) yields exactly the reference text
Verbatim == Mode = "emit" => OpFile(script) = RefFile(script)
\* a contained request never resolves outside the root; a refused one is outside
Contained == Mode = "paths" /\ script # <<>> => (PathVerdict(path) # "refused" <=> IsPrefix(RootStack, Resolved(path)))
ManifestFidelity == Mode = "manifest" => Manifest(script) = RealFiles(script)

OpSeq == SetToSeq(Ops)
OpIndex(o) == CHOOSE i \in DOMAIN OpSeq : OpSeq[i] = o
InShard == Mode # "emit" \/ script = <<>> \/ OpIndex(script[1]) % NShards = Shard
Vector ==
    CASE Mode = "paths" -> [mode |-> "paths", path |-> path, verdict |-> PathVerdict(path), resolved |-> Resolved(path)]
      [] Mode = "emit"  -> [mode |-> "emit", script |-> script, file |-> RefFile(script)]
      [] Mode = "manifest" -> [mode |-> "manifest", script |-> script, files |-> SetToSeq(RealFiles(script).files),
                               refused |-> RealFiles(script).refused]
Emit == IF EmitVectors /\ script # <<>> THEN PrintT(<<"VEC", ToJson(Vector)>>) ELSE TRUE
=============================================================================

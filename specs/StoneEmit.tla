------------------------------ MODULE StoneEmit ------------------------------
(***************************************************************************)
(* C18: backends write only inside the output folder, verbatim, as the     *)
(* manifest says.  Three machines over one file-system variable:           *)
(*  Mode "paths":  a path of segments {name, ".", "..", "", unicode},      *)
(*     absolute or relative, with or without trailing slash, resolved by a *)
(*     segment stack as os.path.abspath does; Contained / RefusedBefore.   *)
(*  Mode "emit":   the emitter: buffer of chunks, indent stack,            *)
(*     placeholders, brace escaping and str.format at close (operational)  *)
(*     against the lines a reference pretty-printer produces (declarative):*)
(*     Verbatim; Escape/Format are transcribed character by character.     *)
(*  Mode "manifest": scripts of open/copy operations run for real and as a *)
(*     manifest run: ManifestFidelity.                                     *)
(*  Mode "wrap":   emit_wrapped_text under 0-2 contexts: the greedy loop   *)
(*     of textwrap transcribed (operational) against what the docstring    *)
(*     promises (WrapKeepsText, WrapKeepsWords, WrapPrefixed, WrapWidth,   *)
(*     WrapGreedy); the lines go through the same buffer machine.          *)
(* Text is a sequence over the alphabet Chars (braces, format-like         *)
(* sequences, a backslash, non-ASCII).                                     *)
(***************************************************************************)
EXTENDS Integers, Sequences, FiniteSets, TLC, Json

CONSTANTS Mode, MaxOps, Shard, NShards, EmitVectors
VARIABLES script, path
vars == <<script, path>>

RECURSIVE SetToSeq(_)
SetToSeq(S) == IF S = {} THEN <<>> ELSE LET x == CHOOSE y \in S : TRUE IN <<x>> \o SetToSeq(S \ {x})
RECURSIVE Flat(_)
Flat(ss) == IF ss = <<>> THEN <<>> ELSE Head(ss) \o Flat(Tail(ss))
Rep(n, x) == [i \in 1..n |-> x]

\* ============================================================= paths
Segs == {"n", "m", ".", "..", "", "u", "o+"}    \* "u" is a non-ASCII name; "o+" is the output folder's own name with a suffix
                                                \* (../out_old is beside /T/out although "/T/out" is a PREFIX of its text)
Paths == {[abs |-> a, segs |-> s, slash |-> t] :
            a \in {"rel", "root", "inroot", "sibling"},   \* relative | "/abs/.." | abs path below the root | abs path beside it
            s \in UNION {[1..k -> Segs] : k \in 1..3}, t \in BOOLEAN}
\* the output root is /T/out; resolution as os.path.abspath: "" and "." vanish, ".." pops
RootStack == <<"T", "out">>
RECURSIVE Norm(_, _)
Norm(stack, segs) ==
    IF segs = <<>> THEN stack
    ELSE LET h == Head(segs) IN
         Norm(IF h \in {"", "."} THEN stack
              ELSE IF h = ".." THEN (IF stack = <<>> THEN <<>> ELSE SubSeq(stack, 1, Len(stack) - 1))
              ELSE Append(stack, h), Tail(segs))
StartOf(p) == CASE p.abs = "rel" -> RootStack [] p.abs = "root" -> <<>> [] p.abs = "inroot" -> RootStack
                [] p.abs = "sibling" -> <<"T", "o+">>
Resolved(p) == Norm(StartOf(p), p.segs)
IsPrefix(a, b) == Len(a) <= Len(b) /\ SubSeq(b, 1, Len(a)) = a
Inside(p) == IsPrefix(RootStack, Resolved(p))
\* a proper file: strictly below the root, not written as a directory, last segment a name
\* the directories the path names on its way (they have to exist before the file is opened)
Visited(p) == {Norm(StartOf(p), SubSeq(p.segs, 1, k)) : k \in 0..(Len(p.segs) - 1)}
\* ... and the target is not one of the directories the path itself walks through (`n/../n`)
FileLike(p) == /\ Inside(p) /\ Len(Resolved(p)) > Len(RootStack) /\ ~p.slash /\ p.segs[Len(p.segs)] \in {"n", "m", "u", "o+"}
               /\ Resolved(p) \notin Visited(p)
\* verdict the documents prescribe
PathVerdict(p) == IF ~Inside(p) THEN "refused"          \* before anything is written, anywhere
                  ELSE IF FileLike(p) THEN "written"     \* at Resolved(p), inside the root
                  ELSE "no_file"                         \* the root itself / a directory: nothing may appear outside

\* ============================================================= text, Escape, Format
Chars == {"a", " ", "{", "}", "0", "x", "%", "e", "b", "h"} \* e = e-acute, b = backslash, h = hyphen (rendered by the harness)
Texts == { <<"a">>, <<"a", " ", "a">>, <<"{">>, <<"}">>, <<"{", "}">>, <<"{", "0", "}">>, <<"{", "x", "}">>,
           <<"{", "{">>, <<"}", "}", "a">>, <<"%", "x">>, <<"e", "b", "a">>, <<"a", "{", "a", "}", "a">>, <<>> }
Escape(s) == Flat([i \in DOMAIN s |-> IF s[i] = "{" THEN <<"{", "{">> ELSE IF s[i] = "}" THEN <<"}", "}">> ELSE <<s[i]>>])
\* str.format: "{{" -> "{", "}}" -> "}", "{name}" -> the placeholder, anything else with a brace fails
RECURSIVE Format(_, _, _)
Format(t, pos, named) ==       \* returns [ok, s, pos]; pos = remaining positional placeholders
    IF t = <<>> THEN [ok |-> TRUE, s |-> <<>>]
    ELSE LET c == Head(t) IN
         IF c = "{" THEN
              IF Len(t) >= 2 /\ t[2] = "{" THEN LET r == Format(SubSeq(t, 3, Len(t)), pos, named)
                                                IN  IF r.ok THEN [ok |-> TRUE, s |-> <<"{">> \o r.s] ELSE r
              ELSE IF Len(t) >= 2 /\ t[2] = "}" THEN        \* "{}" : next positional
                   IF pos = <<>> THEN [ok |-> FALSE, s |-> <<>>]
                   ELSE LET r == Format(SubSeq(t, 3, Len(t)), Tail(pos), named)
                        IN  IF r.ok THEN [ok |-> TRUE, s |-> Head(pos) \o r.s] ELSE r
              ELSE IF Len(t) >= 3 /\ t[3] = "}" /\ t[2] \in DOMAIN named THEN
                   LET r == Format(SubSeq(t, 4, Len(t)), pos, named)
                   IN  IF r.ok THEN [ok |-> TRUE, s |-> named[t[2]] \o r.s] ELSE r
              ELSE [ok |-> FALSE, s |-> <<>>]
         ELSE IF c = "}" THEN
              IF Len(t) >= 2 /\ t[2] = "}" THEN LET r == Format(SubSeq(t, 3, Len(t)), pos, named)
                                                IN  IF r.ok THEN [ok |-> TRUE, s |-> <<"}">> \o r.s] ELSE r
              ELSE [ok |-> FALSE, s |-> <<>>]
         ELSE LET r == Format(Tail(t), pos, named) IN IF r.ok THEN [ok |-> TRUE, s |-> <<c>> \o r.s] ELSE r

\* ============================================================= emit scripts (operations)
\* operations (one file is open throughout)
OEmit(s)      == [op |-> "emit", s |-> s]                \* indentation + s + newline (empty s: bare newline)
ORaw(s)       == [op |-> "raw", s |-> s]                 \* s + newline, no indentation
OIndent       == [op |-> "indent"]                       \* enter `with indent()`
OBlock(b)     == [op |-> "block", before |-> b]          \* enter block(before, delim=("{","}")): "before {" ... "}"
OPop          == [op |-> "pop"]                          \* leave the innermost context
OHolder(n)    == [op |-> "holder", n |-> n]              \* emit_placeholder(n); n = "" positional
OFill(n, s)   == [op |-> "fill", n |-> n, s |-> s]       \* add_named_placeholder / add_positional_placeholder
OList(k, c)   == [op |-> "list", k |-> k, compact |-> c] \* generate_multiline_list of k items, before "f", delim ("(", ")")
NL == "\n"
Ops == {OEmit(s) : s \in Texts} \cup {ORaw(s) : s \in Texts \ {<<>>}} \cup {OIndent, OBlock(<<"a">>), OPop}
       \cup {OHolder("x"), OHolder(""), OFill("x", <<"{", "a">>), OFill("", <<"}", "e">>),
             \* registered text with adjacent braces: it is substituted as it is, never un-escaped
             OFill("x", <<"{", "{", "a", "}", "}">>), OFill("", <<"}", "}", "{", "{">>)}
       \cup {OList(k, c) : k \in 0..3, c \in BOOLEAN}

\* --- operational: the buffer machine of stone/backend.py
Pad(n) == Rep(n, " ")
BufSt(out, ind, pos, named, depth) == [out |-> out, ind |-> ind, pos |-> pos, named |-> named, stack |-> depth]
EmitLine(st, s) == IF s = <<>> THEN [st EXCEPT !.out = @ \o <<NL>>]
                   ELSE [st EXCEPT !.out = @ \o Escape(Pad(st.ind) \o s) \o <<NL>>]
Item(i) == <<"a", "0">>          \* every list item is the text a0 (the harness uses the same)
RECURSIVE EmitAll(_, _)
EmitAll(st, ls) == IF ls = <<>> THEN st ELSE EmitAll(EmitLine(st, Head(ls)), Tail(ls))
ListLines(k, compact) ==      \* before = "f", delim = ("(", ")"), sep = ",", after = ""
    IF k = 0 THEN << [ind |-> 0, s |-> <<"a", "(", ")">>] >>
    ELSE IF k = 1 THEN << [ind |-> 0, s |-> <<"a", "(">> \o Item(1) \o <<")">>] >>
    ELSE IF compact
         THEN << [ind |-> 0, s |-> <<"a", "(">> \o Item(1) \o <<"%">>] >> \o
              [i \in 1..(k - 1) |-> [ind |-> 2, s |-> Item(i + 1) \o (IF i = k - 1 THEN <<")">> ELSE <<"%">>)]]
         ELSE << [ind |-> 0, s |-> <<"a", "(">>] >> \o
              [i \in 1..k |-> [ind |-> 4, s |-> Item(i) \o <<"%">>]] \o << [ind |-> 0, s |-> <<")">>] >>
\* ("%" stands for the separator "," which is not in Chars; the harness renders it so)
\* ============================================================= wrapped text (emit_wrapped_text)
\* The text is a sequence of words separated by single spaces.  The documentation of emit_wrapped_text: the wrapping
\* is that of textwrap.fill; `prefix` goes before EVERY line, `initial_prefix` after it on the first line,
\* `subsequent_prefix` after it on the others, the current indentation before all of them; `width` is the target
\* width of a line INCLUDING indentation and prefixes; a word longer than that is broken only if break_long_words;
\* with break_on_hyphens a line may also end right after the hyphen of a compound word.
WA == <<"a">>
W3 == <<"a", "a", "a">>
WB == <<"{", "0", "}">>
WH == <<"a", "a", "h", "a", "a">>
WL == Rep(7, "a")
WrapTexts == { <<WA>>, <<WA, W3, WA>>, <<W3, WB, W3>>, <<WA, WL, WA>>, <<WH, WH>>, <<W3, W3, W3, W3>>, <<WL, WH>> }
OWrap(ws, p, ip, sp, w, blw, hy) == [op |-> "wrap", ws |-> ws, p |-> p, ip |-> ip, sp |-> sp, w |-> w, blw |-> blw, hy |-> hy]
WrapOps == {OWrap(ws, p, pr[1], pr[2], w, blw, hy) :
               ws \in WrapTexts, p \in {<<>>, <<"%">>},
               pr \in {<< <<>>, <<>> >>, << <<"x">>, <<>> >>, << <<>>, <<"x", "x">> >>},
               w \in {6, 10}, blw \in BOOLEAN, hy \in BOOLEAN}
\* chunks: words (a compound word in two pieces, the first ending in the hyphen, if hy) and the spaces between them
HyPos(w) == {i \in 3..(Len(w) - 2) : w[i] = "h"}
Pieces(w, hy) == IF hy /\ HyPos(w) # {} THEN LET i == CHOOSE j \in HyPos(w) : TRUE IN <<SubSeq(w, 1, i), SubSeq(w, i + 1, Len(w))>>
                 ELSE <<w>>
RECURSIVE Chunks(_, _)
Chunks(ws, hy) == IF ws = <<>> THEN <<>>
                  ELSE Pieces(Head(ws), hy) \o (IF Len(ws) > 1 THEN << <<" ">> >> ELSE <<>>) \o Chunks(Tail(ws), hy)
LenOf(cs) == Len(Flat(cs))
Blank(c) == c = <<>> \/ c = <<" ">>
\* --- operational: the greedy loop of textwrap (one line per round)
RECURSIVE WrapFill(_, _, _)
WrapFill(cur, rest, avail) == IF rest # <<>> /\ LenOf(cur) + Len(Head(rest)) <= avail
                              THEN WrapFill(Append(cur, Head(rest)), Tail(rest), avail)
                              ELSE [cur |-> cur, rest |-> rest]
RECURSIVE WrapGo(_, _, _, _, _, _)
WrapGo(ch, lines, i1, i2, w, blw) ==
    IF ch = <<>> THEN lines
    ELSE LET indent == IF lines = <<>> THEN i1 ELSE i2
             avail  == w - Len(indent)
             ch1    == IF Blank(Head(ch)) /\ lines # <<>> THEN Tail(ch) ELSE ch          \* one blank chunk is dropped at the start of a later line
             f      == WrapFill(<<>>, ch1, avail)
             g      == IF f.rest # <<>> /\ Len(Head(f.rest)) > avail
                       THEN IF blw
                            THEN LET sl == IF avail < 1 THEN 1 ELSE avail - LenOf(f.cur)
                                     c  == Head(f.rest)
                                     k  == IF sl > Len(c) THEN Len(c) ELSE sl
                                 IN  [cur |-> Append(f.cur, SubSeq(c, 1, k)), rest |-> <<SubSeq(c, k + 1, Len(c))>> \o Tail(f.rest)]
                            ELSE IF f.cur = <<>> THEN [cur |-> <<Head(f.rest)>>, rest |-> Tail(f.rest)] ELSE f
                       ELSE f
             cur2   == IF g.cur # <<>> /\ Blank(g.cur[Len(g.cur)]) THEN SubSeq(g.cur, 1, Len(g.cur) - 1) ELSE g.cur
         IN  IF cur2 # <<>> THEN WrapGo(g.rest, Append(lines, [ind |-> indent, body |-> Flat(cur2)]), i1, i2, w, blw)
             ELSE WrapGo(g.rest, lines, i1, i2, w, blw)
\* lines of a wrap operation under `ind` columns of indentation: each [ind (indentation and prefixes), body]
WrapLines(o, ind) == WrapGo(Chunks(o.ws, o.hy), <<>>, Pad(ind) \o o.p \o o.ip, Pad(ind) \o o.p \o o.sp, o.w, o.blw)
WrapText(o, ind) == LET ls == WrapLines(o, ind)
                        RECURSIVE J(_)
                        J(i) == IF i > Len(ls) THEN <<>>
                                ELSE ls[i].ind \o ls[i].body \o (IF i < Len(ls) THEN <<NL>> ELSE <<>>) \o J(i + 1)
                    IN  J(1)
\* --- what the documentation promises about these lines
NoSpace(s) == SelectSeq(s, LAMBDA c : c # " ")
RECURSIVE SplitWords(_, _)
SplitWords(s, cur) == IF s = <<>> THEN (IF cur = <<>> THEN <<>> ELSE <<cur>>)
                      ELSE IF Head(s) = " " THEN (IF cur = <<>> THEN <<>> ELSE <<cur>>) \o SplitWords(Tail(s), <<>>)
                      ELSE SplitWords(Tail(s), Append(cur, Head(s)))
AllPieces(ws, hy) == Flat([i \in DOMAIN ws |-> Pieces(ws[i], hy)])
WrapContexts == {0, 4, 8}
\* static properties of the wrap operator: evaluated once, in the initial state of Mode "wrap"
AtWrapStart == Mode = "wrap" /\ script = <<>>
\* every character of every word, in order, nothing else but the separating spaces
WrapKeepsText == AtWrapStart => \A o \in WrapOps, ind \in WrapContexts :
    LET ls == WrapLines(o, ind) IN Flat([i \in DOMAIN ls |-> NoSpace(ls[i].body)]) = Flat(o.ws)
\* unless long words may be broken, the lines hold the words themselves, in order; a compound word may be
\* divided after its hyphen (compared piece by piece: the two pieces of a word on one line are written together)
WrapKeepsWords == AtWrapStart => \A o \in WrapOps, ind \in WrapContexts : ~o.blw =>
    LET ls == WrapLines(o, ind) IN AllPieces(Flat([i \in DOMAIN ls |-> SplitWords(ls[i].body, <<>>)]), o.hy) = AllPieces(o.ws, o.hy)
\* indentation, then prefix, then the initial or the subsequent prefix
WrapPrefixed == AtWrapStart => \A o \in WrapOps, ind \in WrapContexts :
    LET ls == WrapLines(o, ind) IN
    \A i \in DOMAIN ls : ls[i].ind = Pad(ind) \o o.p \o (IF i = 1 THEN o.ip ELSE o.sp)
\* a line exceeds the width only by a single unbroken word (or a single character, when the prefixes alone fill the width)
WrapWidth == AtWrapStart => \A o \in WrapOps, ind \in WrapContexts :
    LET ls == WrapLines(o, ind) IN
    \A i \in DOMAIN ls : Len(ls[i].ind) + Len(ls[i].body) > o.w =>
        IF o.blw THEN Len(ls[i].body) = 1 ELSE Len(SplitWords(ls[i].body, <<>>)) = 1
\* greedy: the first piece of the next line would not have fitted (when words are not broken)
WrapGreedy == AtWrapStart => \A o \in WrapOps, ind \in WrapContexts : ~o.blw =>
    LET ls == WrapLines(o, ind) IN
    \A i \in DOMAIN ls : i < Len(ls) =>
        LET nxt == SplitWords(ls[i + 1].body, <<>>)[1]
            sep == IF o.hy /\ ls[i].body[Len(ls[i].body)] = "h" THEN 0 ELSE 1
        IN  Len(ls[i].ind) + Len(ls[i].body) + sep + Len(nxt) > o.w

Step(st, o) ==
    CASE o.op = "emit"   -> EmitLine(st, o.s)
      [] o.op = "raw"    -> [st EXCEPT !.out = @ \o Escape(o.s) \o <<NL>>]
      [] o.op = "indent" -> [st EXCEPT !.ind = @ + 4, !.stack = Append(@, "i")]
      [] o.op = "block"  -> LET s1 == EmitLine(st, o.before \o <<" ", "{">>) IN [s1 EXCEPT !.ind = @ + 4, !.stack = Append(@, "b")]
      [] o.op = "pop"    -> IF st.stack = <<>> THEN st
                            ELSE LET s1 == [st EXCEPT !.ind = @ - 4, !.stack = SubSeq(@, 1, Len(@) - 1)]
                                 IN  IF st.stack[Len(st.stack)] = "b" THEN EmitLine(s1, <<"}">>) ELSE s1
      [] o.op = "holder" -> [st EXCEPT !.out = @ \o <<"{">> \o (IF o.n = "" THEN <<>> ELSE <<o.n>>) \o <<"}">>]
      [] o.op = "fill"   -> IF o.n = "" THEN [st EXCEPT !.pos = Append(@, o.s)] ELSE [st EXCEPT !.named = (o.n :> o.s) @@ @]
      [] o.op = "list"   -> LET ls == ListLines(o.k, o.compact)
                                RECURSIVE Go(_, _)
                                Go(s0, i) == IF i > Len(ls) THEN s0
                                             ELSE Go(EmitLine([s0 EXCEPT !.ind = st.ind + ls[i].ind], ls[i].s), i + 1)
                            IN  [Go(st, 1) EXCEPT !.ind = st.ind]
      [] o.op = "wrap"   -> [st EXCEPT !.out = @ \o Escape(WrapText(o, st.ind)) \o <<NL>>]     \* through emit_raw
RECURSIVE RunOps(_, _)
RunOps(st, ops) == IF ops = <<>> THEN st ELSE RunOps(Step(st, Head(ops)), Tail(ops))
EmptyNamed == [x \in {} |-> <<>>]
\* contexts still open when the file is closed are left (innermost first)
RECURSIVE CloseAll(_)
CloseAll(st) == IF st.stack = <<>> THEN st ELSE CloseAll(Step(st, OPop))
OpFile(ops) == LET st == CloseAll(RunOps(BufSt(<<>>, 0, <<>>, EmptyNamed, <<>>), ops)) IN Format(st.out, st.pos, st.named)

\* --- declarative: the reference pretty-printer
\* lines with their indentation; placeholders are resolved at the end by name / position
RefSt(out, ind, depth, holders) == [out |-> out, ind |-> ind, stack |-> depth, holders |-> holders]
RefLine(st, s) == IF s = <<>> THEN [st EXCEPT !.out = Append(@, [k |-> "text", s |-> <<NL>>])]
                  ELSE [st EXCEPT !.out = Append(@, [k |-> "text", s |-> Pad(st.ind) \o s \o <<NL>>])]
RefStep(st, o) ==
    CASE o.op = "emit"   -> RefLine(st, o.s)
      [] o.op = "raw"    -> [st EXCEPT !.out = Append(@, [k |-> "text", s |-> o.s \o <<NL>>])]
      [] o.op = "indent" -> [st EXCEPT !.ind = @ + 4, !.stack = Append(@, "i")]
      [] o.op = "block"  -> LET s1 == RefLine(st, o.before \o <<" ", "{">>) IN [s1 EXCEPT !.ind = @ + 4, !.stack = Append(@, "b")]
      [] o.op = "pop"    -> IF st.stack = <<>> THEN st
                            ELSE LET s1 == [st EXCEPT !.ind = @ - 4, !.stack = SubSeq(@, 1, Len(@) - 1)]
                                 IN  IF st.stack[Len(st.stack)] = "b" THEN RefLine(s1, <<"}">>) ELSE s1
      [] o.op = "holder" -> [st EXCEPT !.out = Append(@, [k |-> "holder", n |-> o.n])]
      [] o.op = "fill"   -> st
      [] o.op = "list"   -> LET ls == ListLines(o.k, o.compact)
                                RECURSIVE Go(_, _)
                                Go(s0, i) == IF i > Len(ls) THEN s0
                                             ELSE Go(RefLine([s0 EXCEPT !.ind = st.ind + ls[i].ind], ls[i].s), i + 1)
                            IN  [Go(st, 1) EXCEPT !.ind = st.ind]
      [] o.op = "wrap"   -> [st EXCEPT !.out = Append(@, [k |-> "text", s |-> WrapText(o, st.ind) \o <<NL>>])]
RECURSIVE RefRun(_, _)
RefRun(st, ops) == IF ops = <<>> THEN st ELSE RefRun(RefStep(st, Head(ops)), Tail(ops))
\* registered texts: named -> last registration wins; positional in registration order
NamedOf(ops) == LET idx == {i \in DOMAIN ops : ops[i].op = "fill" /\ ops[i].n # ""}
                IN  [n \in {ops[i].n : i \in idx} |->
                        ops[CHOOSE i \in idx : ops[i].n = n /\ \A j \in idx : ops[j].n = n => j <= i].s]
PosOf(ops) == LET s == SelectSeq(ops, LAMBDA o : o.op = "fill" /\ o.n = "") IN [i \in DOMAIN s |-> s[i].s]
RECURSIVE Resolve(_, _, _)
Resolve(out, pos, named) ==
    IF out = <<>> THEN [ok |-> TRUE, s |-> <<>>]
    ELSE LET h == Head(out) IN
         IF h.k = "text" THEN LET r == Resolve(Tail(out), pos, named) IN IF r.ok THEN [ok |-> TRUE, s |-> h.s \o r.s] ELSE r
         ELSE IF h.n = "" THEN (IF pos = <<>> THEN [ok |-> FALSE, s |-> <<>>]
                                ELSE LET r == Resolve(Tail(out), Tail(pos), named)
                                     IN  IF r.ok THEN [ok |-> TRUE, s |-> Head(pos) \o r.s] ELSE r)
         ELSE IF h.n \in DOMAIN named THEN LET r == Resolve(Tail(out), pos, named)
                                           IN  IF r.ok THEN [ok |-> TRUE, s |-> named[h.n] \o r.s] ELSE r
         ELSE [ok |-> FALSE, s |-> <<>>]
RECURSIVE RefCloseAll(_)
RefCloseAll(st) == IF st.stack = <<>> THEN st ELSE RefCloseAll(RefStep(st, OPop))
RefFile(ops) == Resolve(RefCloseAll(RefRun(RefSt(<<>>, 0, <<>>, <<>>), ops)).out, PosOf(ops), NamedOf(ops))

\* ============================================================= manifest scripts
\* files are named n, k, c, s; the only directory name is m (a name is never both)
MOps == {[op |-> "open", p |-> p] : p \in {<<"n">>, <<"m", "n">>, <<"m", "..", "k">>, <<"..", "x">>}}
        \cup {[op |-> "copy", p |-> p] : p \in {<<"c">>, <<".", "c">>, <<"..", "x">>}}
        \cup {[op |-> "swift", p |-> p] : p \in {<<"s">>, <<"..", "x">>}}
MPath(p) == [abs |-> "rel", segs |-> p, slash |-> FALSE]
\* files a real run creates / a manifest run reports, up to the first refused request
RECURSIVE RunM(_, _)
RunM(ops, acc) == IF ops = <<>> THEN [files |-> acc, refused |-> FALSE]
                  ELSE IF ~Inside(MPath(Head(ops).p)) THEN [files |-> acc, refused |-> TRUE]
                  ELSE RunM(Tail(ops), acc \cup {Resolved(MPath(Head(ops).p))})
RealFiles(ops) == RunM(ops, {})
Manifest(ops)  == RunM(ops, {})        \* the same function: that is the property

\* ============================================================= the machine
Init == /\ script = <<>>
        /\ path = IF Mode = "paths" THEN CHOOSE p \in Paths : TRUE ELSE [abs |-> "rel", segs |-> <<"n">>, slash |-> FALSE]
PickPath == /\ Mode = "paths" /\ script = <<>>
            /\ path' \in Paths
            /\ script' = <<[op |-> "path"]>>
AddOp == /\ Mode \in {"emit", "manifest"} /\ Len(script) < MaxOps
         /\ \E o \in (IF Mode = "emit" THEN Ops ELSE MOps) : script' = Append(script, o)
         /\ UNCHANGED path
\* Mode "wrap": up to two contexts, one wrapped text, optionally an ordinary line after it
AddWrap == /\ Mode = "wrap" /\ Len(script) < MaxOps
           /\ \E o \in (IF \E i \in DOMAIN script : script[i].op = "wrap"
                         THEN (IF script[Len(script)].op = "wrap" THEN {OEmit(<<"a">>)} ELSE {})
                         ELSE (IF Len(script) < 2 THEN {OIndent, OBlock(<<"a">>)} ELSE {}) \cup WrapOps) :
                  script' = Append(script, o)
           /\ UNCHANGED path
Next == PickPath \/ AddOp \/ AddWrap
Spec == Init /\ [][Next]_vars

\* ============================================================= properties
\* Escape then Format is the identity, on every text, and never fails
EscapeFormatIdentity == \A s \in Texts : Format(Escape(s), <<>>, EmptyNamed) = [ok |-> TRUE, s |-> s]
\* the buffer machine (escape on emit, str.format at close) yields exactly the reference text
Verbatim == Mode \in {"emit", "wrap"} => OpFile(script) = RefFile(script)
\* a contained request never resolves outside the root; a refused one is outside
Contained == Mode = "paths" /\ script # <<>> => (PathVerdict(path) # "refused" <=> IsPrefix(RootStack, Resolved(path)))
ManifestFidelity == Mode = "manifest" => Manifest(script) = RealFiles(script)

OpSeq == SetToSeq(Ops)
OpIndex(o) == CHOOSE i \in DOMAIN OpSeq : OpSeq[i] = o
InShard == Mode # "emit" \/ script = <<>> \/ OpIndex(script[1]) % NShards = Shard
Vector ==
    CASE Mode = "paths" -> [mode |-> "paths", path |-> path, verdict |-> PathVerdict(path), resolved |-> Resolved(path)]
      [] Mode \in {"emit", "wrap"} -> [mode |-> "emit", script |-> script, file |-> RefFile(script)]
      [] Mode = "manifest" -> [mode |-> "manifest", script |-> script, files |-> SetToSeq(RealFiles(script).files),
                               refused |-> RealFiles(script).refused]
Emit == IF EmitVectors /\ script # <<>> THEN PrintT(<<"VEC", ToJson(Vector)>>) ELSE TRUE
=============================================================================

----------------------------- MODULE StoneSemMC -----------------------------
(***************************************************************************)
(* C01 C02 C11: authoring is part of the behaviour.  An instance of a      *)
(* scenario is a set of definitions (with zero or more rule violations     *)
(* injected at a site); the environment writes them in some order, splits  *)
(* each namespace over files and orders the files.  At the end the model   *)
(* carries its verdict (WellFormed), the violated rules and the denoted    *)
(* API description; TLC checks OrderFree, CycleAgreement (operational      *)
(* in-progress-set resolution = declarative acyclicity) and DenoteClosed,  *)
(* and prints one vector per finished model for replay through             *)
(* specs_to_ir.                                                            *)
(***************************************************************************)
EXTENDS StoneSem, Json

CONSTANTS Scenario, OrderMode, WFOnly, Shard, NShards, EmitVectors
VARIABLES inst, order, phase, model
vars == <<inst, order, phase, model>>

P(ns, d) == [ns |-> ns, d |-> d]
Str  == R("String")
I32  == R("Int32")
f1   == DField("f1", I32)

\* ------------------------------------------------------------- scenario A: struct inheritance
ScenA ==
  { << P("nsa", DStruct0("Sa", ea, fa)), P("nsa", DStruct0("Sb", eb, fb)), P("nsa", DStruct0("Sc", ec, fc)),
       P("nsa", DUnionS("Ua", FALSE, NoRef, <<[n |-> "t1", t |-> VoidTag]>>)),
       P("nsa", DAliasS("Aa", R("Sb"))) >> :
      ea \in {NoRef, R("Sb"), R("Sc"), R("Zz"), R("Ua"), R("Aa"), R("Sa")},
      eb \in {NoRef, R("Sa"), R("Sc")},
      ec \in {NoRef, R("Sa"), R("Sb")},
      fa \in {<<f1>>, <<f1, DField("f1", Str)>>},
      fb \in {<<DField("g1", I32)>>, <<DField("f1", Str)>>},
      fc \in {<<DField("h1", R("Sb"))>>, <<DField("h1", R("Void"))>>, <<DField("h1", RN("Sb")), DFieldD("h2", I32)>>,
              <<DFieldD("h1", RN("Int32"))>>} }

\* ------------------------------------------------------------- scenario B: aliases, nullability
ScenB ==
  { << P("nsa", DAliasS("Aa", x)), P("nsa", DAliasS("Ab", y)), P("nsa", DAliasS("Ac", z)),
       P("nsa", DStruct0("Sa", NoRef, <<DField("f1", t)>>)) >> :
      x \in {I32, R("Ab"), RN("Ab"), R("Sa"), RN("Sa"), RN("Ac"), RN("Void"), RList(RN("Ab")), Ref("", "Ab", FALSE, I32)},
      y \in {R("Aa"), R("Ac"), RN("Ac"), RN("String"), Str},
      z \in {Str, RN("String"), R("Aa"), RList(R("Sa"))},
      t \in {R("Aa"), RN("Aa"), RN("Ab"), RN("Ac"), RList(RN("Ac")), R("List"), Ref("", "Int32", FALSE, Str)} }

\* ------------------------------------------------------------- scenario C: namespaces and imports
ScenC ==
  { ia \o ib \o
    << P("nsa", DStruct0("Sa", ea, <<DField("f1", ta)>>)),
       P("nsb", DStruct0("Tb", eb, <<DField("g1", I32)>>)),
       P("nsb", DAliasS("Bb", R("Tb"))) >> \o extra :
      ia \in {<<>>, <<P("nsa", DImport("nsb"))>>, <<P("nsa", DImport("nsa"))>>, <<P("nsa", DImport("nsz"))>>},
      ib \in {<<>>, <<P("nsb", DImport("nsa"))>>},
      ea \in {NoRef, RQ("nsb", "Tb"), RQ("nsb", "Bb")},
      eb \in {NoRef, RQ("nsa", "Sa")},
      ta \in {I32, RQ("nsb", "Tb"), Ref("nsb", "Bb", TRUE, NoRef), RQ("nsb", "Zz"), RQ("Sa", "Tb"), RQ("nsz", "Tb"), R("Tb")},
      extra \in {<<>>, <<P("nsa", DStruct0("Tb", NoRef, <<DField("k1", I32)>>))>>,
                 <<P("nsb", DStruct0("Nsa", NoRef, <<DField("k1", I32)>>))>>} }

\* ------------------------------------------------------------- scenario D: unions
VT(n) == [n |-> n, t |-> VoidTag]
TT(n, t) == [n |-> n, t |-> t]
ScenD ==
  { << P("nsa", DUnionS("Ua", ca, ea, ta)), P("nsa", DUnionS("Ub", cb, eb, tb)),
       P("nsa", DStruct0("Sa", NoRef, <<f1, [n |-> "f5", t |-> Str, dflt |-> FALSE, doc |-> "d4", ann |-> "Dep"]>>)) >> \o uc :
      ca \in BOOLEAN, cb \in BOOLEAN,
      \* a third level: the open/closed rule and tag clashes along chains of three
      uc \in {<<>>, <<P("nsa", DUnionS("Uc", TRUE, R("Ub"), <<VT("t5")>>))>>, <<P("nsa", DUnionS("Uc", FALSE, R("Ub"), <<VT("t1")>>))>>,
              <<P("nsa", DUnionS("Uc", FALSE, R("Ua"), <<VT("t5")>>))>>},
      ea \in {NoRef, R("Ub"), R("Sa")},
      eb \in {NoRef, R("Ua")},
      \* (members with a docstring and/or an annotation: Dep = Deprecated(), Prev = Preview())
      ta \in {<<VT("t1"), TT("t2", R("Sa"))>>, <<VT("t1"), VT("other")>>, <<VT("t1"), TT("t1", I32)>>,
              <<[n |-> "t1", t |-> VoidTag, doc |-> "d1", ann |-> "Dep"], [n |-> "t2", t |-> R("Sa"), doc |-> "d2", ann |-> "Prev"],
                [n |-> "t4", t |-> VoidTag, doc |-> "", ann |-> "Dep"], [n |-> "t6", t |-> VoidTag, doc |-> "d3", ann |-> ""]>>,
              <<TT("t2", R("Void"))>>, <<TT("t2", RN("Ub"))>>},
      tb \in {<<VT("t3")>>, <<VT("t1")>>, <<TT("t3", RN("Void"))>>} }

\* ------------------------------------------------------------- scenario E: enumerated subtypes
ST(n, t) == [n |-> n, t |-> t]
ExVariants == { <<>>,
                <<Ex("default", <<As("f1", "int"), As("g1", "int")>>)>>,
                <<Ex("default", <<As("f1", "int")>>)>>,                                      \* g1 missing
                <<Ex("default", <<As("f1", "int"), As("g1", "int"), As("zz", "int")>>)>>,    \* unknown field
                <<Ex("default", <<As("f1", "int"), As("g1", "int"), As("b", "int")>>)>>,     \* a subtype tag is no field
                <<Ex("default", <<As("f1", "str"), As("g1", "int")>>)>>,                     \* wrong literal
                <<Ex("default", <<As("f1", "int"), As("g1", "null")>>)>>,
                <<Ex("default", <<As("f1", "int"), As("g1", "int")>>), Ex("default", <<As("f1", "int"), As("g1", "int")>>)>> }
ScenE ==
  { << P("nsa", DStructS("Sa", ea, <<f1>>, TRUE, subs, ca)),
       P("nsa", DStructX("Sb", eb, <<DField("g1", I32)>>, FALSE, <<>>, FALSE, ex)),
       P("nsa", DStruct0("Sc", ec, <<DField("h1", I32)>>)),
       P("nsa", DStruct0("Sd", NoRef, <<DField("k1", I32)>>)),
       P("nsa", DUnionS("Ua", TRUE, NoRef, <<VT("t1")>>)) >> :
      ex \in ExVariants,
      ea \in {NoRef, R("Sd")},
      eb \in {R("Sa"), NoRef},
      ec \in {R("Sa"), R("Sb"), NoRef},
      ca \in BOOLEAN,
      subs \in {<<ST("b", R("Sb")), ST("c", R("Sc"))>>, <<ST("b", R("Sb"))>>, <<ST("b", R("Sb")), ST("c", R("Sb"))>>,
                <<ST("b", R("Sb")), ST("f1", R("Sc"))>>, <<ST("b", R("Ua")), ST("c", R("Sc"))>>,
                <<ST("b", R("Zz")), ST("c", R("Sc"))>>, <<ST("b", R("Sb")), ST("b", R("Sc"))>>} }

\* ------------------------------------------------------------- scenario R: routes
ScenR ==
  { << P("nsa", DStruct0("Sa", NoRef, <<f1>>)),
       P("nsa", DRoute("ra", 1, a, R("Void"), e, dep)),
       P("nsa", DRoute(n2, v2, R("Sa"), R("Sa"), R("Void"), NoDep)) >> :
      a \in {R("Sa"), R("Void"), R("ra"), R("Zz"), RN("Sa"), RList(R("Sa")), RN("Void")},
      e \in {R("Void"), R("Sa")},
      dep \in {NoDep, DepPlain, DepBy("rb", 1), DepBy("rb", 2), DepBy("Sa", 1), DepBy("ra", 2)},
      n2 \in {"rb", "ra", "Sa", "s_a"},
      v2 \in {1, 2} }

\* ------------------------------------------------------------- scenario P: patches
ScenP ==
  { << P("nsa", DStruct0("Sa", NoRef, <<f1>>)), P("nsa", DStruct0("Sb", R("Sa"), <<DField("g1", I32)>>)),
       P("nsa", DUnionS("Ua", ca, NoRef, <<VT("t1")>>)), P("nsa", DAliasS("Aa", R("Sa"))),
       P("nsa", DRoute("ra", 1, R("Sa"), R("Void"), R("Void"), NoDep)) >> \o p1 \o p2 :
      ca \in BOOLEAN,
      p1 \in { <<>>,
               <<P("nsa", PatchS("Sa", <<DField("h1", I32)>>))>>,
               <<P("nsa", PatchS("Sa", <<DField("f1", Str)>>))>>,           \* mutates an existing field
               <<P("nsa", PatchS("Sa", <<DField("g1", I32)>>))>>,           \* clashes with a descendant's field
               <<P("nsa", PatchS("Sa", <<DField("h1", R("Zz"))>>))>>,       \* undefined type
               <<P("nsa", PatchS("Sa", <<DFieldD("h1", I32), DField("h3", RN("Sb"))>>))>>,
               <<P("nsa", PatchS("Zz", <<DField("h1", I32)>>))>>,           \* nothing to patch
               <<P("nsa", PatchS("Aa", <<DField("h1", I32)>>))>>,           \* an alias is not a data type
               <<P("nsa", PatchS("Ua", <<DField("h1", I32)>>))>>,           \* kind mismatch
               <<P("nsa", PatchS("Sb", <<DField("h1", I32)>>))>>,
               <<P("nsa", PatchS("Sb", <<DField("f1", I32)>>))>> },         \* clashes with an inherited field
      p2 \in { <<>>,
               <<P("nsa", PatchS("Sa", <<DField("h2", I32)>>))>>,           \* a second patch of the same struct
               <<P("nsa", PatchS("Sa", <<DField("h1", Str)>>))>>,           \* clashes with the other patch
               <<P("nsa", PatchU("Ua", FALSE, <<VT("t2")>>))>>,
               <<P("nsa", PatchU("Ua", TRUE, <<VT("t2")>>))>>,
               <<P("nsa", PatchU("Ua", FALSE, <<VT("t1")>>))>>,
               <<P("nsa", PatchU("Ua", FALSE, <<VT("other")>>))>>,
               \* a union patch whose name belongs to something that is neither a struct nor a union
               <<P("nsa", PatchU("Aa", FALSE, <<VT("t2")>>))>>, <<P("nsa", PatchU("ra", TRUE, <<VT("t2")>>))>>,
               <<P("nsa", PatchS("ra", <<DField("h1", I32)>>))>>, <<P("nsa", PatchU("Sa", FALSE, <<VT("t2")>>))>>,
               <<P("nsa", PatchU("Ua", FALSE, <<TT("t2", R("Sa"))>>)), P("nsa", PatchU("Ua", FALSE, <<VT("t3")>>))>> } }

Instances == CASE Scenario = "A" -> ScenA [] Scenario = "B" -> ScenB [] Scenario = "C" -> ScenC
               [] Scenario = "D" -> ScenD [] Scenario = "E" -> ScenE [] Scenario = "R" -> ScenR
               [] Scenario = "P" -> ScenP
InstSeq == SetToSeq(Instances)

\* ------------------------------------------------------------- building files from an authoring
\* the defs of namespace ns in written order
Written(ins, ord, ns) ==
    LET s == [i \in DOMAIN ord |-> ins[ord[i]]]
    IN  [i \in DOMAIN SelectSeq(s, LAMBDA p : p.ns = ns) |-> SelectSeq(s, LAMBDA p : p.ns = ns)[i].d]
NsInOrder(ins, ord) ==       \* namespaces by first written definition
    LET RECURSIVE Go(_, _)
        Go(i, acc) == IF i > Len(ord) THEN acc
                      ELSE Go(i + 1, IF ins[ord[i]].ns \in Range(acc) THEN acc ELSE Append(acc, ins[ord[i]].ns))
    IN  Go(1, <<>>)
Build(ins, ord, cut, frev) ==
    LET nss == NsInOrder(ins, ord)
        files == Flat([i \in DOMAIN nss |->
                    LET ds == Written(ins, ord, nss[i])
                        c  == IF cut > Len(ds) THEN Len(ds) ELSE cut
                    IN  IF c = 0 \/ c = Len(ds) THEN << [ns |-> nss[i], defs |-> ds] >>
                        ELSE << [ns |-> nss[i], defs |-> SubSeq(ds, 1, c)],
                                [ns |-> nss[i], defs |-> SubSeq(ds, c + 1, Len(ds))] >>])
    IN  IF frev THEN [i \in DOMAIN files |-> files[Len(files) + 1 - i]] ELSE files
Identity(n) == [i \in 1..n |-> i]
CanonModel(ins) == Build(ins, Identity(Len(ins)), 0, FALSE)

\* ------------------------------------------------------------- the machine
\* WFOnly: only the instances that violate no rule (C02 compares accepted models)
Init == /\ inst \in {i \in DOMAIN InstSeq : i % NShards = Shard /\ (WFOnly => WellFormed(CanonModel(InstSeq[i])))}
        /\ order = <<>> /\ phase = "writing" /\ model = <<>>
N == Len(InstSeq[inst])
Remaining == (1..N) \ Range(order)
Mod1(x) == ((x - 1) % N) + 1
Allowed ==
    IF OrderMode = "all" /\ N <= 4 THEN Remaining
    ELSE IF OrderMode = "all" THEN
         \* more than four definitions: every rotation, in both directions (2N of the N! orders)
         IF order = <<>> THEN Remaining
         ELSE IF Len(order) = 1 THEN {Mod1(order[1] + 1), Mod1(order[1] - 1)} \cap Remaining
         ELSE {Mod1(order[Len(order)] + (IF Mod1(order[1] + 1) = order[2] THEN 1 ELSE N - 1))} \cap Remaining
    ELSE IF OrderMode = "one" THEN (IF Remaining = {} THEN {} ELSE {CHOOSE i \in Remaining : \A j \in Remaining : i <= j})
    ELSE \* "two": ascending, descending, or rotated by one (a forward reference across the cut);
         \* "files": ascending or descending, one split, both file orders (what matters between namespaces)
         IF order = <<>> THEN (IF OrderMode = "files" THEN {1, N} ELSE {1, N, 2}) \cap Remaining
         ELSE IF order[1] = 1 THEN {order[Len(order)] + 1} \cap Remaining
         ELSE IF order[1] = N THEN {order[Len(order)] - 1} \cap Remaining
         ELSE {IF order[Len(order)] = N THEN 1 ELSE order[Len(order)] + 1} \cap Remaining
WriteDef == /\ phase = "writing" /\ Remaining # {}
            /\ \E i \in Allowed : order' = Append(order, i)
            /\ UNCHANGED <<inst, phase, model>>
Finish == /\ phase = "writing" /\ Remaining = {}
          /\ \E cut \in (IF OrderMode \in {"one", "files"} THEN {1} ELSE {0, 1, 2}),
                frev \in (IF OrderMode = "one" THEN {FALSE} ELSE BOOLEAN) :
                model' = Build(InstSeq[inst], order, cut, frev)
          /\ phase' = "done"
          /\ UNCHANGED <<inst, order>>
Next == WriteDef \/ Finish
Spec == Init /\ [][Next]_vars

\* ------------------------------------------------------------- properties
Done == phase = "done"
\* verdict, rule attribution and the denoted API do not depend on order, split or file order
OrderFree ==
    Done => LET c == CanonModel(InstSeq[inst]) IN
            /\ Violations(model) = Violations(c)
            /\ WellFormed(c) => Denote(model) = Denote(c)
\* the in-progress-set resolution in declaration order finds a circular reference exactly when
\* the parent graph has a cycle, whichever type is declared first
CycleAgreement == Done => (OpCycle(model) = DeclCycle(model))
\* an accepted model denotes a closed API: every reference resolves, inheritance acyclic
DenoteClosed ==
    (Done /\ WellFormed(model)) =>
        /\ ~DeclCycle(model)
        /\ \A ns \in Namespaces(model) : \A d \in Range(DefsOf(model, ns)) :
              /\ d.k = "struct" => \A i \in DOMAIN d.fields :
                                      Resolved(model, ns, d.fields[i].t, 6).kind \in {"struct", "union", "builtin"}
              /\ d.k = "union" => \A i \in DOMAIN d.tags : d.tags[i].t.k = "tref" =>
                                      Resolved(model, ns, d.tags[i].t, 6).kind \in {"struct", "union", "builtin"}
              /\ d.k = "alias" => Resolved(model, ns, d.t, 6).kind \in {"struct", "union", "builtin"}
\* every rule of the catalogue is reachable in its scenario (checked by the harness from the vectors)

Vector == [phase |-> "model", scenario |-> Scenario, inst |-> inst, order |-> order, files |-> model,
           wellformed |-> WellFormed(model), violations |-> SetToSeq(Violations(model)),
           denote |-> IF WellFormed(model) THEN SetToSeq(Denote(model)) ELSE <<>>]
Emit == IF EmitVectors /\ phase = "done" THEN PrintT(<<"VEC", ToJson(Vector)>>) ELSE TRUE
=============================================================================

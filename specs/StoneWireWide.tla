---------------------------- MODULE StoneWireWide ---------------------------
(***************************************************************************)
(* The wire specification applied to values that were NOT enumerated by    *)
(* TLC: a driver on the implementation side (harness/widegen.py) draws     *)
(* random values of the StoneWireMC schemas that are wider and deeper than *)
(* Vals (several optional fields at once, lists of three different items,  *)
(* maps with three keys, nesting depth four) and records them in an ndjson *)
(* file.  This module reads the record, evaluates the same operators       *)
(* (Encode, Dec strict / lenient) on every recorded value, checks the same *)
(* invariants as StoneWireMC (RoundTrip, Idempotent, DecodedIsValid, ...), *)
(* and prints the same vectors, which the harness compares with what the   *)
(* real encoder and decoder do with those values (C04, C05).               *)
(* Evaluation is cheap where enumeration is not: this reaches value shapes *)
(* the bounded universe cannot.                                            *)
(***************************************************************************)
EXTENDS StoneWireMC, IOUtils

VARIABLE l                      \* position in the record
wvars == <<vars, l>>

Trace == ndJsonDeserialize(IOEnv.TRACE_FILE)

\* records and maps arrive as sequences of <<name, value>> pairs (an empty JSON object has no TLA+ counterpart)
PairsToFn(ps) == [n \in {ps[i][1] : i \in DOMAIN ps} |-> ps[CHOOSE i \in DOMAIN ps : ps[i][1] = n][2]]
RECURSIVE FromJ(_)
FromJ(x) ==
    CASE x.k = "list"   -> VList([i \in DOMAIN x.items |-> FromJ(x.items[i])])
      [] x.k = "map"    -> VMap(PairsToFn([i \in DOMAIN x.m |-> <<x.m[i][1], FromJ(x.m[i][2])>>]))
      [] x.k = "struct" -> VStruct(x.c, PairsToFn([i \in DOMAIN x.f |-> <<x.f[i][1], FromJ(x.f[i][2])>>]))
      [] x.k = "union"  -> VUnion(x.c, x.tag, FromJ(x.v))
      [] OTHER          -> x

CfgOf(i) == CHOOSE c \in Cfgs : CfgIndex(c) = i

WInit == /\ l = 1 /\ phase = "init"
         /\ cfg = CfgOf(Trace[1].cfg)
         /\ root = None /\ val = None /\ doc = None /\ nt = 0 /\ rs = None /\ rl = None
\* the recorded value is composed and sent
WCompose == /\ phase = "init" /\ l <= Len(Trace)
            /\ root' = Trace[l].root                 \* the type record itself (the order of RootSeq is not stable across runs)
            /\ val' = FromJ(Trace[l].val)
            /\ doc' = Encode(Schema(cfg), root', val', {})
            /\ rs' = Dec(Schema(cfg), root', doc', TRUE, {}, {})
            /\ rl' = Dec(Schema(cfg), root', doc', FALSE, {}, {})
            /\ phase' = "sent"
            /\ UNCHANGED <<cfg, nt, l>>
WAdvance == /\ phase = "sent"
            /\ l' = l + 1
            /\ IF l + 1 <= Len(Trace)
               THEN phase' = "init" /\ cfg' = CfgOf(Trace[l + 1].cfg)
               ELSE phase' = "done" /\ cfg' = cfg
            /\ UNCHANGED <<root, val, doc, nt, rs, rl>>
WNext == WCompose \/ WAdvance
WSpec == WInit /\ [][WNext]_wvars

\* the driver must hand over values of the declared type (a failure here is a defect of the driver, not of stone)
DriverValuesValid == Sent => Valid(SC, root, val, {})

WEmit ==
    IF ~EmitVectors THEN TRUE
    ELSE CASE phase = "init" /\ (l = 1 \/ (l <= Len(Trace) /\ Trace[l - 1].cfg # Trace[l].cfg)) -> PrintT(<<"VEC", ToJson(SchemaVector)>>)
           [] phase = "sent" -> PrintT(<<"VEC", ToJson(Vector)>>)
           [] OTHER -> TRUE
=============================================================================

---------------------------- MODULE StoneAnnotMC ----------------------------
(***************************************************************************)
(* C13: omitted fields/tags and redacted values never leak.                *)
(* A server composes the full value (every field, whatever the caller),    *)
(* encodes it for a caller holding permissions `perms`, optionally with    *)
(* redaction; a caller holding `perms2` sends the document back and the    *)
(* server decodes it strictly.  TLC explores every (schema variant, type,  *)
(* value, perms, perms2, redact) and checks NoOmittedLeak, NoRedactedLeak, *)
(* OmittedNotSuppliable on the documented wire rules (lang_ref "Omission", *)
(* "Redaction"); every state is replayed through generated classes.        *)
(***************************************************************************)
EXTENDS StoneWire, Json

CONSTANTS Shard, NShards, EmitVectors
VARIABLES phase, cfg, root, val, perms, rd, doc, perms2, res
vars == <<phase, cfg, root, val, perms, rd, doc, perms2, res>>

AllPerms == {"c1", "c2"}
\* sentinel leaves: strings with u >= 2 and the int rank 14 (2^31-2) occur only
\* under a redactor
SecretStr(i) == VStr(8, TRUE, i)
S64 == TInt("Int64", Unset, Unset)
I32 == TInt("Int32", Unset, Unset)
Str == TStr(Unset, Unset, "")

\* cfg.r : which redactor kind the marked alias RA carries; cfg.x : the type of the
\* field-level redacted slot d3
RedKinds == <<"hash", "blot", "hash:r1", "blot:r1">>
SlotTypes == << TMap(I32), TList(Str, Unset, Unset), TNull(Str), TList(TNull(TMap(Str)), Unset, Unset), I32,
                TFloat("Float64", Unset, Unset) >>
Cfgs == {[r |-> r, x |-> x] : r \in DOMAIN RedKinds, x \in DOMAIN SlotTypes}
CfgIndex(c) == (c.r - 1) * Len(SlotTypes) + (c.x - 1)

Schema(c) ==
    LET red  == RedKinds[c.r]
        red2 == RedKinds[(c.r % Len(RedKinds)) + 1]
    IN
    ("Ra" :> DAlias("nsb", Str, red)) @@
    ("Rb" :> DAlias("nsb", TRef("Ra"), "")) @@                       \* alias of a marked alias
    ("Rl" :> DAlias("nsb", TList(Str, Unset, Unset), red2)) @@
    ("B"  :> DStruct("nsa", "", << Fld("b1", Str),
                                   Field("b2", S64, NoDefault, "c1", ""),       \* required, omitted
                                   Field("b3", TNull(Str), NoDefault, "", red2),
                                   Field("bp", TNull(I32), NoDefault, "c2", red) \* patched in, omitted + redacted
                                >>, <<>>, FALSE)) @@
    ("D"  :> DStruct("nsa", "B", << Fld("d1", TRef("Ra")),
                                    Fld("d2", TNull(TList(TRef("Rb"), Unset, Unset))),
                                    Field("d3", SlotTypes[c.x], NoDefault, "", red),
                                    Field("d4", TNull(Str), NoDefault, "c2", red2),
                                    Fld("d5", TNull(TList(TMap(TRef("Ra")), Unset, 1))),
                                    Field("d6", TNull(I32), NoDefault, "c1", ""),
                                    Fld("d7", TNull(TRef("Rl"))),
                                    \* a marked alias of a container as the item / value of another container
                                    Fld("d8", TNull(TList(TRef("Rl"), Unset, 2))),
                                    Fld("d9", TNull(TMap(TRef("Rl"))))
                                 >>, <<>>, FALSE)) @@
    \* M extends B and omits nothing itself; N extends M and omits a member for c1 only: the members B omits for c1
    \* and c2 reach N through a parent that has no omitted member of its own
    ("M"  :> DStruct("nsa", "B", << Fld("m1", TNull(I32)) >>, <<>>, FALSE)) @@
    ("N"  :> DStruct("nsa", "M", << Field("n1", TNull(I32), NoDefault, "c1", "") >>, <<>>, FALSE)) @@
    ("P"  :> DStruct("nsa", "", << Fld("p1", I32), Field("p2", TNull(Str), NoDefault, "c1", red) >>,
                     <<Sub("q", "Q")>>, TRUE)) @@
    ("Q"  :> DStruct("nsa", "P", << Field("q1", Str, NoDefault, "", red2),
                                    Field("q2", TNull(I32), NoDefault, "c2", "") >>, <<>>, FALSE)) @@
    ("W"  :> DUnion("nsa", "", FALSE,
                    << Tag("wv", TVoid),
                       TagR("wr", Str, red),
                       TagO("wo", I32, "c1"),
                       Tag("wd", TNull(TRef("B"))),
                       Tag("wa", TNull(TRef("Ra"))),
                       Tag("wp", TRef("P")),
                       [n |-> "wx", t |-> TList(Str, Unset, Unset), omit |-> "c2", red |-> red2],
                       \* redactor directly on a nullable member
                       TagR("wn", TNull(Str), red2),
                       TagR("wl", TNull(TList(Str, Unset, Unset)), red),
                       TagR("wm", TNull(TMap(I32)), red2),
                       [n |-> "wy", t |-> TNull(Str), omit |-> "c1", red |-> red],
                       \* a member without a value can be omitted too
                       TagO("wz", TVoid, "c2") >>))

Patched == [B |-> {"bp"}]
Roots == {TRef("B"), TRef("D"), TRef("W"), TRef("P"), TRef("N"),
          TList(TRef("W"), Unset, 2), TMap(TRef("D")), TNull(TRef("Ra")), TRef("Rl")}
RootSeq == SetToSeq(Roots)
RootIdx(r) == CHOOSE i \in DOMAIN RootSeq : RootSeq[i] = r

\* ------------------------------------------------------------- sentinel values
\* every leaf below a redactor gets a value that occurs nowhere else
RECURSIVE Mark(_, _, _, _)
MarkVal(v, i) ==
    CASE v.k = "str"   -> SecretStr(i)
      [] v.k = "int"   -> VInt(14)
      [] v.k = "float" -> VFloat(15)
      [] OTHER         -> v
RECURSIVE MarkAll(_, _)
MarkAll(v, i) ==
    CASE v.k = "list" -> VList([j \in DOMAIN v.items |-> MarkAll(v.items[j], i)])
      [] v.k = "map"  -> VMap([key \in DOMAIN v.m |-> MarkAll(v.m[key], i)])
      [] OTHER        -> MarkVal(v, i)
\* rewrite value v of type t so that redacted positions hold sentinels
Mark(sc, t, v, i) ==
    IF v.k = "none" THEN v
    ELSE IF RedOf(sc, t) # "" THEN MarkAll(v, i)
    ELSE CASE t.k = "nullable" -> Mark(sc, t.e, v, i)
           [] t.k = "list" -> VList([j \in DOMAIN v.items |-> Mark(sc, t.e, v.items[j], i)])
           [] t.k = "map"  -> VMap([key \in DOMAIN v.m |-> Mark(sc, t.v, v.m[key], i)])
           [] t.k = "ref"  ->
                LET d == sc[t.n] IN
                (CASE d.k = "alias"  -> Mark(sc, d.t, v, i)
                  [] d.k = "struct" ->
                       LET fs == AllFields(sc, v.c)
                       IN  VStruct(v.c, [n \in DOMAIN v.f |->
                              LET f == FieldByName(fs, n)
                              IN  IF f.red # "" THEN MarkAll(v.f[n], 2) ELSE Mark(sc, f.t, v.f[n], 3)])
                  [] d.k = "union"  ->
                       LET tg == TagByName(sc, v.c, v.tag)
                       IN  VUnion(v.c, v.tag, IF tg.red # "" THEN MarkAll(v.v, 2) ELSE Mark(sc, tg.t, v.v, 3)))
           [] OTHER -> v

\* ------------------------------------------------------------- the machine
None == [k |-> "none"]
Init == /\ phase = "init"
        /\ cfg \in {c \in Cfgs : CfgIndex(c) % NShards = Shard}
        /\ root = None /\ val = None /\ doc = None /\ res = None
        /\ perms = {} /\ perms2 = {} /\ rd = FALSE

PickRoot == /\ phase = "init"
            /\ root' \in Roots
            /\ phase' = "root"
            /\ UNCHANGED <<cfg, val, perms, rd, doc, perms2, res>>

\* the server computes the full super-type (lang_ref "Omission"), or only the
\* public part
Compose == /\ phase = "root"
           /\ \E vp \in {AllPerms, {}} :
                val' \in {Mark(Schema(cfg), root, v, 3) : v \in Vals(Schema(cfg), root, 2, vp)}
           /\ phase' = "composed"
           /\ UNCHANGED <<cfg, root, perms, rd, doc, perms2, res>>

Send == /\ phase = "composed"
        /\ perms' \in SUBSET AllPerms
        /\ rd' \in BOOLEAN
        /\ doc' = EncodeX(Schema(cfg), root, val, perms', rd')
        /\ phase' = "sent"
        /\ UNCHANGED <<cfg, root, val, perms2, res>>

\* the document comes back from a caller holding perms2 (redacted documents
\* are log lines, not messages: only unredacted ones are decoded)
Receive == /\ phase = "sent" /\ ~rd /\ doc.k # "encerr"
           /\ perms2' \in SUBSET AllPerms
           /\ res' = Dec(Schema(cfg), root, doc, TRUE, perms2', {})
           /\ phase' = "received"
           /\ UNCHANGED <<cfg, root, val, perms, rd, doc>>

Next == PickRoot \/ Compose \/ Send \/ Receive
Spec == Init /\ [][Next]_vars

\* ------------------------------------------------------------- properties
SC == Schema(cfg)
RECURSIVE Keys(_), ClearLeaves(_)
Keys(d) ==
    CASE d.k = "jobj" -> DOMAIN d.m \cup UNION {Keys(d.m[key]) : key \in DOMAIN d.m}
      [] d.k = "jarr" -> UNION {Keys(d.items[i]) : i \in DOMAIN d.items}
      [] OTHER        -> {}
ClearLeaves(d) ==
    CASE d.k = "jobj" -> UNION {ClearLeaves(d.m[key]) : key \in DOMAIN d.m}
      [] d.k = "jarr" -> UNION {ClearLeaves(d.items[i]) : i \in DOMAIN d.items}
      [] d.k = "jstr" /\ d.of = "str" -> {d.v}
      [] d.k = "jint" -> {VInt(d.r)}
      [] d.k = "jfloat" -> {VFloat(d.r)}
      [] OTHER        -> {}
\* names of the members (fields and tags) omitted for caller class c
OmittedNames(c) ==
    UNION {{m.n : m \in {x \in Range(IF SC[n].k = "struct" THEN SC[n].fields
                                     ELSE IF SC[n].k = "union" THEN SC[n].tags ELSE <<>>) : x.omit = c}}
           : n \in DOMAIN SC}
TagValues(d) == {x.s : x \in {y \in
    (CASE d.k = "jobj" -> {d.m[key] : key \in DOMAIN d.m} [] OTHER -> {}) : y.k = "jstr" /\ y.of = "tag"}}
RECURSIVE AllTagValues(_)
AllTagValues(d) ==
    CASE d.k = "jobj" -> TagValues(d) \cup UNION {AllTagValues(d.m[key]) : key \in DOMAIN d.m}
      [] d.k = "jarr" -> UNION {AllTagValues(d.items[i]) : i \in DOMAIN d.items}
      [] OTHER        -> {}
Secrets == {SecretStr(2), SecretStr(3), VInt(14), VFloat(15)}

Sent == phase = "sent" /\ doc.k # "encerr"
\* a member omitted for c is absent for a caller without c ...
NoOmittedLeak ==
    Sent => \A c \in AllPerms \ perms :
              (Keys(doc) \cup AllTagValues(doc)) \cap OmittedNames(c) = {}
\* ... and nothing else is withheld: with every permission and no redaction the
\* message round-trips to the full value
PresentWithPermission ==
    (phase = "received" /\ perms = AllPerms /\ perms2 = AllPerms) => res = Ok(val)
NoRedactedLeak ==
    (Sent /\ rd) => ClearLeaves(doc) \cap Secrets = {}
\* a caller lacking c cannot supply a member omitted for c (strict decoding)
OmittedNotSuppliable ==
    (phase = "received" /\
        (\E c \in AllPerms \ perms2 : (Keys(doc) \cup AllTagValues(doc)) \cap OmittedNames(c) # {}))
            => res.k = "err"
\* encoding for a caller refuses (rather than drops) a union whose tag the caller may not see
RefusedOnlyForHiddenTagOrMissing ==
    (phase = "sent" /\ doc.k = "encerr") => perms # AllPerms \/ ~Valid(SC, root, val, AllPerms)

\* ------------------------------------------------------------- vectors
Vector ==
    [phase |-> phase, cfg |-> CfgIndex(cfg), root |-> RootIdx(root), val |-> val,
     perms |-> SetToSeq(perms), rd |-> rd, doc |-> doc]
    @@ (IF phase = "received" THEN [perms2 |-> SetToSeq(perms2), res |-> res] ELSE <<>>)
SchemaVector == [phase |-> "schema", cfg |-> CfgIndex(cfg), schema |-> Schema(cfg),
                 roots |-> RootSeq, patched |-> [B |-> SetToSeq(Patched.B)]]
Emit ==
    IF ~EmitVectors THEN TRUE
    ELSE CASE phase = "init" -> PrintT(<<"VEC", ToJson(SchemaVector)>>)
           [] phase \in {"sent", "received"} -> PrintT(<<"VEC", ToJson(Vector)>>)
           [] OTHER -> TRUE
=============================================================================

--------------------------- MODULE StoneRuntimeMC ---------------------------
(***************************************************************************)
(* C08: generated classes accept a value exactly when it satisfies the     *)
(* declared Stone type (lang_ref "Basic Types", "Nullable Type", "Struct   *)
(* Polymorphism", "Union / Inheritance").                                  *)
(*                                                                         *)
(* An object with one attribute of declared type `ty`; the environment     *)
(* assigns, reads and deletes it, constructs a union member of that type,  *)
(* or decodes a JSON primitive against it.  `Accepts` is the reference     *)
(* predicate; `Norm` the documented normalisation (integers stored as      *)
(* floats in float fields, tuples as lists, None in a nullable field =     *)
(* unset).  TLC enumerates every (type, slot state, operation, argument)   *)
(* of the universe; each transition is replayed on generated classes.      *)
(***************************************************************************)
EXTENDS StoneRuntime, Json

CONSTANTS Shard, NShards, EmitVectors
VARIABLES ti, slot, last, prev      \* prev: the slot before the last operation
vars == <<ti, slot, last, prev>>

\* --------------------------------------------------------- the schema and types
I32b  == TInt("Int32", 7, 12)
Str13 == TStr(1, 3, "")
Schema ==
    ("A"  :> DAlias("nsb", Str13, "")) @@
    ("An" :> DAlias("nsb", TNull(I32b), "")) @@
    ("K"  :> DUnion("nsb", "", TRUE, <<Tag("red", TVoid), Tag("green", TVoid)>>)) @@
    ("L"  :> DStruct("nsb", "", <<Fld("l1", I32b)>>, <<>>, FALSE)) @@
    ("S"  :> DStruct("nsa", "", <<Fld("f1", I32b)>>, <<>>, FALSE)) @@
    ("C"  :> DStruct("nsa", "S", <<Fld("g1", TNull(TBool))>>, <<>>, FALSE)) @@
    ("P"  :> DStruct("nsa", "", <<Fld("p1", I32b)>>, <<Sub("q", "Q")>>, TRUE)) @@
    ("Q"  :> DStruct("nsa", "P", <<Fld("q1", TNull(TBool))>>, <<>>, FALSE)) @@
    ("U"  :> DUnion("nsa", "", FALSE, <<Tag("tv", TVoid), Tag("tp", I32b)>>)) @@
    ("V"  :> DUnion("nsa", "U", FALSE, <<Tag("tw", TVoid)>>))

IntTypes == UNION {{TInt(p, Unset, Unset), TInt(p, IntLo(p), IntHi(p)),
                    TInt(p, IntLo(p) + 1, IntHi(p) - 1),
                    TInt(p, Unset, 12), TInt(p, 10, Unset), TInt(p, 11, 11)}
                   : p \in {"Int32", "UInt32", "Int64", "UInt64"}}
FloatTypes == {TFloat("Float32", Unset, Unset), TFloat("Float64", Unset, Unset),
               TFloat("Float32", 1, 16), TFloat("Float64", 5, 11), TFloat("Float32", 8, Unset),
               TFloat("Float64", Unset, 8), TFloat("Float64", 10, 12)}
StrTypes == {TStr(Unset, Unset, ""), Str13, TStr(2, 2, ""), TStr(Unset, 1, ""), TStr(3, Unset, ""),
             TStr(Unset, Unset, "p1"), TStr(2, 3, "p1")}
LeafTypes == IntTypes \cup FloatTypes \cup StrTypes \cup
             {TBytes(Unset, Unset), TBool, TTs("f1"), TTs("f2")}
RefTypes == {TRef(n) : n \in {"A", "An", "K", "L", "S", "C", "P", "Q", "U", "V"}}
Level1 == {I32b, Str13, TFloat("Float64", 5, 11), TBool, TRef("L"), TRef("K"), TRef("S"), TRef("A")}
ListTypes == {TList(e, mn, mx) : e \in Level1, mn \in {Unset}, mx \in {Unset}}
             \cup {TList(I32b, 1, 2), TList(I32b, Unset, 1), TList(I32b, 2, Unset), TList(TRef("L"), 1, 1),
                   TList(TList(I32b, Unset, 1), Unset, Unset), TList(TMap(I32b), Unset, Unset),
                   TList(TNull(I32b), Unset, 2), TList(TRef("An"), Unset, Unset)}
MapTypes == {TMap(v) : v \in {I32b, Str13, TRef("L"), TList(I32b, Unset, 1), TNull(TRef("S")), TMap(TBool)}}
NullTypes == {TNull(e) : e \in {I32b, Str13, TRef("S"), TRef("U"), TRef("A"), TList(I32b, 1, 2), TMap(I32b),
                                TFloat("Float32", Unset, Unset), TTs("f1"), TBytes(Unset, Unset)}}
Types == LeafTypes \cup RefTypes \cup ListTypes \cup MapTypes \cup NullTypes
TypeSeq == SetToSeq(Types)
Ty == TypeSeq[ti]

\* --------------------------------------------------------- argument pools
Near(lo, hi, ranks) == ({lo - 1, lo, lo + 1, hi - 1, hi, hi + 1} \cap ranks)
WrongKinds == {PNone, PBool(TRUE), PInt(IZero), PFloat(FHalf), PStr(1, TRUE, 0), PBytes(1, 0),
               PList(<<>>), PDict([x \in {} |-> PNone]), PDt("naive"), PObj("L"), PObj("K"),
               \* sized but not sliceable, small and with more entries than an error message quotes
               PSet(3), PSet(1001), PIntDict(1001),
               \* sequences whose items would fit a list of small integers, but which are not lists
               PRange(2), PByteArray}
\* a wire-level valid value as a python-level value (structs/unions become instances)
RECURSIVE Pool(_, _, _)
Pool(sc, t, d) ==
    LET leaf ==
        CASE t.k = "int"   -> {PInt(r) : r \in Near(ILo(t), IHi(t), IntRanks) \cup {IZero}} \cup {PBig, PFloat(10)}
          [] t.k = "float" -> {PFloat(r) : r \in Near(FLo(t), FHi(t), FloatRanks) \cup {FHalf}}
                              \cup {PInt(r) : r \in 6..13} \cup {PFSpec("nan"), PFSpec("inf"), PFSpec("ninf"), PBig}
          [] t.k = "str"   -> {PStr(n, ok, u) : n \in (Near(MinLen(t), MaxLen(t, 3), 0..6)), ok \in BOOLEAN, u \in {0, 1}}
          [] t.k = "bytes" -> {PBytes(0, 0), PBytes(2, 1), PMemview}
          [] t.k = "bool"  -> {PBool(TRUE), PBool(FALSE)}
          [] t.k = "ts"    -> {PDt("naive"), PDt("utc"), PDt("plus1"), PDate}
          [] t.k = "void"  -> {}
          [] t.k = "nullable" -> Pool(sc, t.e, d)
          [] t.k = "list"  ->
               IF d = 0 THEN {PList(<<>>)} ELSE
               LET b  == Some(sc, t.e)
                   ns == Near(MinLen(t), MaxLen(t, 2), 0..4)
               IN  {PList(Rep(n, ToP(b))) : n \in ns} \cup {PTuple(Rep(n, ToP(b))) : n \in ns \cap {0, 1, 2}}
                   \cup {PList(<<x>>) : x \in Pool(sc, t.e, d - 1)}
                   \cup {PList(<<ToP(b), x>>) : x \in Pool(sc, t.e, d - 1)}
          [] t.k = "map"   ->
               IF d = 0 THEN {PDict([x \in {} |-> PNone])} ELSE
               {PDict([x \in {} |-> PNone])} \cup {PDict("k1" :> x) : x \in Pool(sc, t.v, d - 1)}
          [] t.k = "ref"   ->
               LET df == sc[t.n] IN
               CASE df.k = "alias" -> Pool(sc, df.t, d)
                 [] OTHER -> {PObj(c) : c \in {"S", "C", "L", "P", "Q", "K", "U", "V"}}
    IN  leaf \cup WrongKinds

\* --------------------------------------------------------- the machine
Result(op, arg, verdict, out) == [op |-> op, arg |-> arg, verdict |-> verdict, out |-> out]
Init == /\ ti \in {i \in DOMAIN TypeSeq : i % NShards = Shard}
        /\ slot = NotSet /\ prev = NotSet
        /\ last = Result("new", PNone, "acc", PNone)

\* obj.f = v : validate-or-refuse; None in a nullable field means unset
SetAttr(v) ==
    LET a == Accepts(Schema, Ty, v) IN
    /\ last' = Result("set", v, a, PNone)
    /\ slot' = IF a = "acc" THEN (IF v.k = "none" THEN NotSet ELSE Norm(Schema, Ty, v))
               ELSE slot                      \* refused (or unspecified): unchanged in the model
    /\ prev' = slot
    /\ UNCHANGED ti
\* obj.f : the value, None for an unset nullable field, AttributeError otherwise
GetAttr ==
    /\ last' = Result("get", PNone, "acc",
                      IF slot.k # "notset" THEN slot
                      ELSE IF IsNullable(Schema, Ty) THEN PNone ELSE [k |-> "attrerr"])
    /\ prev' = slot
    /\ UNCHANGED <<ti, slot>>
DelAttr ==
    /\ last' = Result("del", PNone, "acc", PNone)
    /\ slot' = NotSet
    /\ prev' = slot
    /\ UNCHANGED ti
\* U.tag(v): constructing a union member whose type is Ty
MakeUnion(v) ==
    /\ last' = Result("make", v, Accepts(Schema, Ty, v), PNone)
    /\ prev' = slot
    /\ UNCHANGED <<ti, slot>>
\* json_compat_obj_decode(<validator of Ty>, v) for a primitive Ty and a JSON-representable v
JsonLike(v) == v.k \in {"int", "float", "str", "bool", "none", "bigint"}
DecodePrim(v) ==
    /\ Ty.k \in {"int", "float", "str", "bool"} /\ JsonLike(v)
    /\ last' = Result("decode", v, Accepts(Schema, Ty, v), PNone)
    /\ prev' = slot
    /\ UNCHANGED <<ti, slot>>

Ops == last.op \in {"new", "set", "del"}        \* reads and probes do not change the object: no need to chain them
\* a second assignment is tried with a wrong-kind value (must leave the slot alone), the
\* canonical value and None (overwrite / unset)
Second == WrongKinds \cup {ToP(Some(Schema, Ty))}
Next == /\ Ops
        /\ \/ \E v \in Pool(Schema, Ty, 1) :
                \/ (last.op # "set" \/ v \in Second) /\ SetAttr(v)
                \/ last.op = "new" /\ (MakeUnion(v) \/ DecodePrim(v))
           \/ GetAttr
           \/ (slot.k # "notset" /\ DelAttr)
Spec == Init /\ [][Next]_vars

\* --------------------------------------------------------- properties
\* what sits in the slot is always a (normalised) value of the declared type
PValid(sc, t, v) == Accepts(sc, t, v) = "acc" /\ Norm(sc, t, v) = v
SlotHoldsDeclaredType == slot.k # "notset" => PValid(Schema, Ty, slot) /\ slot.k # "none"
\* normalisation is idempotent and never turns an accepted value into a refused one
NormStable == last.op = "set" /\ last.verdict = "acc" /\ last.arg.k # "none" =>
                  /\ Accepts(Schema, Ty, Norm(Schema, Ty, last.arg)) = "acc"
                  /\ Norm(Schema, Ty, Norm(Schema, Ty, last.arg)) = Norm(Schema, Ty, last.arg)
\* a wire-valid value (StoneWire!Valid) is accepted by assignment: C04's values are C08-valid
WireValidAccepted ==
    last.op = "new" => \A v \in Vals(Schema, Ty, 1, {}) : Accepts(Schema, Ty, ToP(v)) = "acc"

\* --------------------------------------------------------- vectors
SchemaVector == [phase |-> "schema", schema |-> Schema, types |-> TypeSeq]
Vector == [phase |-> "op", ti |-> ti, prev |-> prev, last |-> last, slot |-> slot]
Emit == IF ~EmitVectors THEN TRUE
        ELSE IF last.op = "new" THEN PrintT(<<"VEC", ToJson(SchemaVector)>>)
        ELSE PrintT(<<"VEC", ToJson(Vector)>>)
=============================================================================

------------------------------- MODULE StoneCli -------------------------------
(***************************************************************************)
(* C19: the routes and attributes the command line selects.                *)
(*                                                                         *)
(*  - filter expressions are token strings; ParseModel is a precedence      *)
(*    parser written from the documented semantics (`and` binds tighter    *)
(*    than `or`, parentheses, `=` / `!=` on typed literals, an absent      *)
(*    attribute equals null); Eval evaluates the tree on a route;          *)
(*  - the pruning pipeline of the command line: -w / -b, then -f, then -a, *)
(*    each with its error exit.                                            *)
(* TLC enumerates expressions (every string atom (conn atom)* with one     *)
(* optional parenthesised sub-range, up to MaxAtoms atoms, plus every      *)
(* single-token deletion = malformed), every subset of namespaces for      *)
(* -w/-b and of attributes for -a (incl. unknown names), checks            *)
(* precedence/association laws and pipeline invariants, and prints the     *)
(* predicted Api' for replay through stone.cli.main.                       *)
(***************************************************************************)
EXTENDS Naturals, Sequences, FiniteSets, TLC, Json

CONSTANTS MaxAtoms, Shard, NShards, EmitVectors, Mode      \* Mode: "filter" | "prune"
VARIABLES toks, wopt, bopt, aopt, phase
vars == <<toks, wopt, bopt, aopt, phase>>

Range(s) == {s[i] : i \in DOMAIN s}
\* ------------------------------------------------------------- the spec under the CLI
Null == [k |-> "null"]
S(v) == [k |-> "str", v |-> v]
I(v) == [k |-> "int", v |-> v]
B(v) == [k |-> "bool", v |-> v]
Fl(v) == [k |-> "float", v |-> v]          \* v: tenths (15 = 1.5)
\* stone_cfg.Route: a1 String = "x"; a2 Int64 = 1; a3 Boolean = false; a4 String?
SchemaAttrs == <<"a1", "a2", "a3", "a4">>
Rt(ns, n, ver, a1, a2, a3, a4) == [ns |-> ns, n |-> n, ver |-> ver,
                                   attrs |-> [a1 |-> a1, a2 |-> a2, a3 |-> a3, a4 |-> a4]]
RouteList == <<
    Rt("nsa", "ra", 1, S("x"), I(1), B(TRUE),  Null),
    Rt("nsa", "rb", 1, S("y"), I(1), B(TRUE),  S("x")),
    Rt("nsa", "rb", 2, S("x"), I(2), B(TRUE),  Null),
    Rt("nsa", "rc", 1, S("y"), I(2), B(TRUE),  S("y")),
    Rt("nsb", "ra", 1, S("x"), I(1), B(FALSE), S("x")),       \* the same name and version as a route of nsa
    Rt("nsb", "re", 1, S("y"), I(1), B(FALSE), Null),
    Rt("nsb", "rf", 1, S("x"), I(2), B(FALSE), S("y")),
    Rt("nsc", "rg", 1, S("y"), I(2), B(FALSE), Null) >>
Namespaces == {"nsa", "nsb", "nsc", "nsd"}          \* nsd has types only
RouteIdx == DOMAIN RouteList

\* ------------------------------------------------------------- expressions
Atom(attr, op, lit) == [attr |-> attr, op |-> op, lit |-> lit]
Atoms == << Atom("a1", "=", S("x")), Atom("a1", "!=", S("x")), Atom("a2", "=", I(1)), Atom("a2", "!=", I(2)),
            Atom("a3", "=", B(TRUE)), Atom("a4", "=", Null), Atom("a4", "!=", S("x")), Atom("ax", "=", Null),
            Atom("ax", "!=", Null), Atom("a2", "=", Fl(15)), Atom("a1", "=", I(1)), Atom("a3", "=", I(1)) >>
TAtom(i) == [k |-> "atom", i |-> i]
TAnd == [k |-> "and"]   TOr == [k |-> "or"]   TLp == [k |-> "lp"]   TRp == [k |-> "rp"]

\* Eq on typed literals; "unspec" when the documents do not say (a boolean against a number)
EqV(v, lit) ==
    IF v.k = "null" \/ lit.k = "null" THEN (IF v.k = lit.k THEN "t" ELSE "f")
    ELSE IF v.k = lit.k THEN (IF v.v = lit.v THEN "t" ELSE "f")
    ELSE IF {v.k, lit.k} = {"int", "float"} THEN (IF (IF v.k = "int" THEN v.v * 10 ELSE v.v) = (IF lit.k = "int" THEN lit.v * 10 ELSE lit.v) THEN "t" ELSE "f")
    ELSE IF "bool" \in {v.k, lit.k} /\ ({v.k, lit.k} \cap {"int", "float"} # {}) THEN "u"
    ELSE "f"
Not3(x) == CASE x = "t" -> "f" [] x = "f" -> "t" [] OTHER -> "u"
And3(x, y) == IF x = "f" \/ y = "f" THEN "f" ELSE IF x = "u" \/ y = "u" THEN "u" ELSE "t"
Or3(x, y)  == IF x = "t" \/ y = "t" THEN "t" ELSE IF x = "u" \/ y = "u" THEN "u" ELSE "f"
AttrOf(r, a) == IF a \in DOMAIN r.attrs THEN r.attrs[a] ELSE Null      \* an absent attribute equals null
EvalAtom(i, r) == LET a == Atoms[i] IN
                  IF a.op = "=" THEN EqV(AttrOf(r, a.attr), a.lit) ELSE Not3(EqV(AttrOf(r, a.attr), a.lit))
RECURSIVE Eval(_, _)
Eval(t, r) == CASE t.k = "atom" -> EvalAtom(t.i, r)
                [] t.k = "and"  -> And3(Eval(t.l, r), Eval(t.r, r))
                [] t.k = "or"   -> Or3(Eval(t.l, r), Eval(t.r, r))

\* ------------------------------------------------------------- ParseModel (precedence climbing)
\* returns [ok, t, next]; grammar: or := and ("or" and)* ; and := prim ("and" prim)* ; prim := atom | "(" or ")"
RECURSIVE POr(_, _), PAnd(_, _), PPrim(_, _), POrTail(_, _, _), PAndTail(_, _, _)
Bad == [ok |-> FALSE, t |-> [k |-> "none"], next |-> 0]
PPrim(ts, i) ==
    IF i > Len(ts) THEN Bad
    ELSE IF ts[i].k = "atom" THEN [ok |-> TRUE, t |-> ts[i], next |-> i + 1]
    ELSE IF ts[i].k = "lp" THEN
         LET r == POr(ts, i + 1) IN
         IF r.ok /\ r.next <= Len(ts) /\ ts[r.next].k = "rp" THEN [r EXCEPT !.next = @ + 1] ELSE Bad
    ELSE Bad
PAndTail(ts, left, i) ==
    IF i <= Len(ts) /\ ts[i].k = "and"
    THEN LET r == PPrim(ts, i + 1) IN
         IF r.ok THEN PAndTail(ts, [k |-> "and", l |-> left, r |-> r.t], r.next) ELSE Bad
    ELSE [ok |-> TRUE, t |-> left, next |-> i]
PAnd(ts, i) == LET r == PPrim(ts, i) IN IF r.ok THEN PAndTail(ts, r.t, r.next) ELSE Bad
POrTail(ts, left, i) ==
    IF i <= Len(ts) /\ ts[i].k = "or"
    THEN LET r == PAnd(ts, i + 1) IN
         IF r.ok THEN POrTail(ts, [k |-> "or", l |-> left, r |-> r.t], r.next) ELSE Bad
    ELSE [ok |-> TRUE, t |-> left, next |-> i]
POr(ts, i) == LET r == PAnd(ts, i) IN IF r.ok THEN POrTail(ts, r.t, r.next) ELSE Bad
ParseModel(ts) == LET r == POr(ts, 1) IN IF r.ok /\ r.next = Len(ts) + 1 THEN r ELSE Bad

\* ------------------------------------------------------------- pipeline (cli.main)
\* options: wopt / bopt / aopt are sets of names or the marker {"<none>"}
NoneOpt == {"<none>"}
KnownNs == Namespaces
Result(ts, w, b, a) ==
    LET p == IF ts = <<>> THEN [ok |-> TRUE] ELSE ParseModel(ts)
        hasF == ts # <<>>
        attrs == IF a = NoneOpt THEN {} ELSE IF ":all" \in a THEN Range(SchemaAttrs) ELSE a
        err == IF hasF /\ ~p.ok THEN "bad_filter"
               ELSE IF w # NoneOpt /\ ~(w \subseteq KnownNs) THEN "unknown_namespace"
               ELSE IF b # NoneOpt /\ ~(b \subseteq KnownNs) THEN "unknown_namespace"
               ELSE IF ~((attrs \ {":all"}) \subseteq Range(SchemaAttrs)) THEN "unknown_attribute"
               ELSE ""
        nsKept(ns) == (w = NoneOpt \/ ns \in w) /\ (b = NoneOpt \/ ns \notin b)
        verdict(i) == IF ~nsKept(RouteList[i].ns) THEN "f"
                      ELSE IF hasF THEN Eval(p.t, RouteList[i]) ELSE "t"
    IN  [err |-> err,
         keep |-> IF err # "" THEN {} ELSE {i \in RouteIdx : verdict(i) = "t"},
         unspec |-> IF err # "" THEN {} ELSE {i \in RouteIdx : verdict(i) = "u"},
         attrs |-> attrs \cap Range(SchemaAttrs)]
\* ------------------------------------------------------------- the machine
\* expression strings: atom (conn atom)*, then optionally one parenthesised sub-range, then
\* optionally one token deleted (malformed)
Conns == {TAnd, TOr}
Core == {1, 3, 5, 6}
Init == /\ toks = <<>> /\ wopt = NoneOpt /\ bopt = NoneOpt /\ aopt = NoneOpt /\ phase = "build"
NAtoms(ts) == Cardinality({i \in DOMAIN ts : ts[i].k = "atom"})
AddAtom == /\ phase = "build" /\ Mode = "filter" /\ NAtoms(toks) < MaxAtoms
           /\ \E i \in DOMAIN Atoms :
                \* expressions of three and more atoms are built from four core atoms
                /\ (NAtoms(toks) >= 2 => (i \in Core /\ \A j \in DOMAIN toks : toks[j].k = "atom" => toks[j].i \in Core))
                /\ \/ toks = <<>> /\ toks' = <<TAtom(i)>>
                   \/ toks # <<>> /\ \E c \in Conns : toks' = toks \o <<c, TAtom(i)>>
           /\ UNCHANGED <<wopt, bopt, aopt, phase>>
InsertAt(s, i, x) == SubSeq(s, 1, i - 1) \o <<x>> \o SubSeq(s, i, Len(s))
Parens == /\ phase = "build" /\ toks # <<>>
          /\ \E i, j \in {k \in DOMAIN toks : toks[k].k = "atom"} :
                /\ i <= j
                /\ toks' = InsertAt(InsertAt(toks, j + 1, TRp), i, TLp)
          /\ phase' = "parens"
          /\ UNCHANGED <<wopt, bopt, aopt>>
Mangle == /\ phase \in {"build", "parens"} /\ toks # <<>>
          /\ \E i \in DOMAIN toks : toks' = SubSeq(toks, 1, i - 1) \o SubSeq(toks, i + 1, Len(toks))
          /\ phase' = "mangled"
          /\ UNCHANGED <<wopt, bopt, aopt>>
\* pruning options around a few fixed filters
FixedFilters == {<<>>, <<TAtom(1)>>, <<TAtom(3), TOr, TAtom(5)>>}
Prune == /\ phase = "build" /\ Mode = "prune" /\ toks = <<>>
         /\ toks' \in FixedFilters
         \* (the extreme selections too: every namespace whitelisted, every namespace blacklisted)
         /\ \E w \in {NoneOpt} \cup (SUBSET {"nsa", "nsb", "nsd", "nsz"} \ {{}}) \cup {KnownNs},
               b \in {NoneOpt} \cup (SUBSET {"nsa", "nsc", "nsz"} \ {{}}) \cup {KnownNs} :
                 /\ (w = NoneOpt \/ b = NoneOpt)          \* -w and -b are mutually exclusive
                 /\ wopt' = w /\ bopt' = b
         /\ aopt' \in {NoneOpt} \cup (SUBSET {"a1", "a3", "a4", "zz", ":all"} \ {{}})
         /\ phase' = "pruned"
Next == AddAtom \/ Parens \/ Mangle \/ Prune
Spec == Init /\ [][Next]_vars

\* ------------------------------------------------------------- properties
R == Result(toks, wopt, bopt, aopt)
WellFormedTokens == toks # <<>> /\ ParseModel(toks).ok
\* `and` binds tighter than `or`; both are left-associative; parentheses override: the meaning
\* of a flat string a c1 b c2 d on every route equals the tree the rule prescribes
Precedence ==
    (phase = "build" /\ Len(toks) = 5) =>
        LET a == toks[1] b == toks[3] d == toks[5]
            t == ParseModel(toks).t
            expect == IF toks[2].k = "or" /\ toks[4].k = "and"
                      THEN [k |-> "or", l |-> a, r |-> [k |-> "and", l |-> b, r |-> d]]
                      ELSE [k |-> toks[4].k, l |-> [k |-> toks[2].k, l |-> a, r |-> b], r |-> d]
        IN  \A i \in RouteIdx : Eval(t, RouteList[i]) = Eval(expect, RouteList[i])
\* a parenthesised whole expression means the same as without
OuterParensNeutral ==
    (phase = "parens" /\ toks[1].k = "lp" /\ toks[Len(toks)].k = "rp" /\
     ParseModel(SubSeq(toks, 2, Len(toks) - 1)).ok /\
     \* the outer pair really matches (not "(a) or (b)")
     \A k \in 2..(Len(toks) - 1) :
         Cardinality({x \in 1..k : toks[x].k = "lp"}) > Cardinality({x \in 1..k : toks[x].k = "rp"})) =>
        \A i \in RouteIdx : Eval(ParseModel(toks).t, RouteList[i]) = Eval(ParseModel(SubSeq(toks, 2, Len(toks) - 1)).t, RouteList[i])
\* an absent attribute behaves exactly like one whose value is null
AbsentIsNull == \A i \in RouteIdx : EvalAtom(8, RouteList[i]) = "t" /\ EvalAtom(9, RouteList[i]) = "f"
\* errors are not ignored, and without error exactly the selected routes survive
ErrorsNotIgnored == (R.err # "") => (R.keep = {} /\ R.unspec = {})
NamespacesKeepOnlySelected ==
    (phase = "pruned" /\ R.err = "") =>
        \A i \in R.keep : (wopt = NoneOpt \/ RouteList[i].ns \in wopt) /\ (bopt = NoneOpt \/ RouteList[i].ns \notin bopt)

RECURSIVE SetToSeq(_)
SetToSeq(T) == IF T = {} THEN <<>> ELSE LET x == CHOOSE y \in T : TRUE IN <<x>> \o SetToSeq(T \ {x})
Vector == [toks |-> toks, w |-> SetToSeq(wopt), b |-> SetToSeq(bopt), a |-> SetToSeq(aopt), phase |-> phase,
           err |-> R.err, keep |-> SetToSeq(R.keep), unspec |-> SetToSeq(R.unspec), attrs |-> SetToSeq(R.attrs)]
FirstAtom(ts) == LET i == CHOOSE j \in DOMAIN ts : ts[j].k = "atom" /\ \A m \in 1..(j - 1) : ts[m].k # "atom" IN ts[i].i
InShard == toks = <<>> \/ (\A j \in DOMAIN toks : toks[j].k # "atom") \/ FirstAtom(toks) % NShards = Shard
Emit == IF EmitVectors /\ (toks # <<>> \/ phase = "pruned")
        THEN PrintT(<<"VEC", ToJson(Vector)>>) ELSE TRUE
=============================================================================

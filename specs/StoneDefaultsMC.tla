--------------------------- MODULE StoneDefaultsMC ---------------------------
(***************************************************************************)
(* C10: defaults and examples the compiler accepts are valid for the       *)
(* generated runtime.                                                      *)
(*  Mode "defaults": a struct field of a declared type with a default      *)
(*    literal.  CompileLit is the documented compile-time rule (lang_ref   *)
(*    "Defaults": a literal of the field's type -- range, length, WHOLE    *)
(*    pattern, int for float, a Void tag of the field's union; nullable    *)
(*    and non-primitive types have no default); ValueOf is the value the   *)
(*    unset field must read; StoneRuntime!Accepts is the runtime rule.     *)
(*    DefaultsValid: CompileLit = acc => Accepts(ValueOf) = acc.           *)
(*  Mode "examples": example declarations on every type shape (literals,   *)
(*    references to labelled examples of other types, lists and maps of    *)
(*    references, null, inherited and defaulted fields, enumerated         *)
(*    subtypes, union members).  ExampleValue is the value an example      *)
(*    denotes; ExamplesValid: it is a valid value and its encoding decodes *)
(*    strictly to it and encodes back to the same document.                *)
(***************************************************************************)
EXTENDS StoneRuntime, Json

CONSTANTS Mode, Shard, NShards, EmitVectors
VARIABLES pick
vars == <<pick>>

I32b  == TInt("Int32", 7, 12)
Str13 == TStr(1, 3, "")
\* ------------------------------------------------------------- literals
LInt(r) == [k |-> "lint", r |-> r]
LFloat(r) == [k |-> "lfloat", r |-> r]
LStr(n, full, prefix) == [k |-> "lstr", len |-> n, full |-> full, prefix |-> prefix]
LBool(b) == [k |-> "lbool", b |-> b]
LTag(n) == [k |-> "ltag", n |-> n]
LNull == [k |-> "lnull"]
LTs(ok) == [k |-> "lts", ok |-> ok]          \* a string literal that does / does not parse with the format

DSchema ==
    ("A"  :> DAlias("nsb", Str13, "")) @@
    ("K"  :> DUnion("nsb", "", TRUE, <<Tag("red", TVoid), Tag("green", TVoid), Tag("size", I32b)>>)) @@
    ("U"  :> DUnion("nsa", "", FALSE, <<Tag("tv", TVoid), Tag("tp", I32b)>>)) @@
    ("V"  :> DUnion("nsa", "U", FALSE, <<Tag("tw", TVoid)>>)) @@
    ("Ak" :> DAlias("nsa", TRef("K"), "")) @@
    \* an alias, in an imported namespace, of a union of a THIRD namespace (which nsa does not import)
    ("T3" :> DUnion("nsc", "", TRUE, <<Tag("ta", TVoid), Tag("tb", TVoid)>>)) @@
    ("A3" :> DAlias("nsb", TRef("T3"), "")) @@
    ("L"  :> DStruct("nsb", "", <<Fld("l1", I32b)>>, <<>>, FALSE))
DTypes == << I32b, TInt("Int32", Unset, Unset), TInt("UInt64", Unset, Unset), TInt("Int64", 10, Unset),
             TFloat("Float64", 5, 11), TFloat("Float32", Unset, Unset), TFloat("Float64", Unset, Unset),
             Str13, TStr(Unset, Unset, "p1"), TStr(2, 3, "p1"), TBool, TRef("K"), TRef("V"), TRef("Ak"), TRef("A"),
             TTs("f1"), TNull(I32b), TNull(TRef("K")), TList(I32b, Unset, Unset), TRef("L"), TBytes(Unset, Unset),
             TMap(I32b),
             \* floats bounded on one side only
             TFloat("Float64", Unset, 11), TFloat("Float64", 5, Unset),
             \* String(pattern=""): what an empty pattern means is not documented
             TStr(Unset, Unset, "p0"),
             TRef("A3") >>
Lits == {LInt(r) : r \in {3, 4, 6, 7, 8, 9, 10, 12, 13, 15, 16, 24, 25}} \cup
        {LFloat(r) : r \in {0, 1, 4, 5, 9, 11, 12, 16, 17}} \cup
        {LStr(n, f, p) : n \in {0, 1, 2, 3, 4}, f \in BOOLEAN, p \in BOOLEAN} \cup
        {LBool(TRUE), LBool(FALSE), LNull, LTs(TRUE), LTs(FALSE)} \cup
        {LTag(n) : n \in {"red", "size", "tv", "tp", "tw", "zz", "ta"}}
\* a string literal cannot fully match without matching as a prefix; the empty string matches p1 in no way
LitOk(l) == l.k = "lstr" => ((l.full => l.prefix) /\ (l.len = 0 => (~l.full /\ ~l.prefix)))

\* the documented compile-time rule
CompileLit(sc, t, l) ==
    LET u == Unalias(sc, t) IN
    CASE u.k = "nullable" -> "rej"                                   \* "A default cannot be set for a nullable type"
      [] u.k = "int"   -> IF l.k = "lint" /\ ILo(u) <= l.r /\ l.r <= IHi(u) THEN "acc"
                          ELSE IF l.k = "lbool" THEN "unspec"          \* whether a Boolean literal is a number is not documented
                          ELSE "rej"
      [] u.k = "float" -> IF l.k = "lfloat" THEN (IF FLo(u) <= l.r /\ l.r <= FHi(u) THEN "acc" ELSE "rej")
                          ELSE IF l.k = "lint" THEN
                               (IF IntToFloatDefined(l.r)
                                THEN (IF FLo(u) <= IntToFloat(l.r) /\ IntToFloat(l.r) <= FHi(u) THEN "acc" ELSE "rej")
                                ELSE "unspec")
                          ELSE IF l.k = "lbool" THEN "unspec"
                          ELSE "rej"
      [] u.k = "str"   -> IF u.pat = "p0" THEN (IF l.k \in {"lstr", "lts"} THEN "unspec" ELSE "rej")
                          ELSE IF l.k = "lstr" /\ LenOk(u, l.len) /\ (u.pat = "" \/ l.full) THEN "acc"
                          ELSE IF l.k = "lts" THEN "unspec"           \* some other text: not classified
                          ELSE "rej"
      [] u.k = "bool"  -> IF l.k = "lbool" THEN "acc" ELSE "rej"
      [] u.k = "ts"    -> IF l.k = "lts" THEN (IF l.ok THEN "acc" ELSE "rej") ELSE IF l.k = "lstr" THEN "unspec" ELSE "rej"
      [] u.k = "ref"   ->
           IF sc[u.n].k = "union"
           THEN IF l.k = "ltag" /\ l.n \in TagNames(sc, u.n) /\ l.n # "other"
                   /\ Unalias(sc, TagByName(sc, u.n, l.n).t).k = "void" THEN "acc" ELSE "rej"
           ELSE "rej"                                                 \* struct-typed fields have no default
      [] u.k = "bytes" -> IF l.k \in {"lstr", "lts"} THEN "unspec" ELSE "rej"   \* a text default for Bytes: not documented
      [] OTHER -> "rej"                                               \* List, Map
\* the value an unset field with this default reads
ValueOf(sc, t, l) ==
    LET u == Unalias(sc, t) IN
    CASE l.k = "lint"   -> IF u.k = "float" /\ IntToFloatDefined(l.r) THEN PFloat(IntToFloat(l.r)) ELSE PInt(l.r)
      [] l.k = "lfloat" -> PFloat(l.r)
      [] l.k = "lstr"   -> PStr(l.len, l.full, 0)
      [] l.k = "lbool"  -> PBool(l.b)
      [] l.k = "ltag"   -> [k |-> "obj", c |-> IF u.k = "ref" THEN u.n ELSE "", tag |-> l.n]
      [] l.k = "lts"    -> PDt("naive")
      [] OTHER          -> PNone
\* Accepts on the value (a ready union instance of the right class is an instance of the union or an ancestor)
RuntimeAccepts(sc, t, v) ==
    IF v.k = "obj" /\ "tag" \in DOMAIN v THEN "acc" ELSE Accepts(sc, t, v)

\* ------------------------------------------------------------- examples
XLit(v) == [k |-> "lit", v |-> v]
XRef(label) == [k |-> "ref", label |-> label]
XList(items) == [k |-> "list", items |-> items]
XMap(m) == [k |-> "map", m |-> m]
XNull == [k |-> "null"]
Ex(label, assigns) == [label |-> label, assigns |-> assigns]          \* assigns: field/tag name -> exval
Slots == << [t |-> I32b, x |-> XLit(VInt(12))], [t |-> Str13, x |-> XLit(CStr(2, TRUE, 0))],
            [t |-> TFloat("Float64", 5, 11), x |-> XLit(VFloat(9))], [t |-> TBool, x |-> XLit(VBool(TRUE))],
            [t |-> TTs("f1"), x |-> XLit(VTs(0))], [t |-> TList(I32b, Unset, 2), x |-> XList(<<XLit(VInt(7)), XLit(VInt(12))>>)],
            [t |-> TMap(I32b), x |-> XMap("k1" :> XLit(VInt(10)))], [t |-> TNull(Str13), x |-> XNull],
            [t |-> TRef("A"), x |-> XLit(CStr(3, TRUE, 1))], [t |-> TNull(TRef("L")), x |-> XRef("other")],
            \* a map with a null value, a list with a null item
            [t |-> TMap(TNull(I32b)), x |-> XMap(("k1" :> XLit(VInt(10))) @@ ("k2" :> XNull))],
            [t |-> TList(TNull(TRef("L")), Unset, Unset), x |-> XList(<<XRef("default"), XNull>>)] >>
ESchema(i) ==
    LET X == Slots[i].t IN
    ("A" :> DAlias("nsb", Str13, "")) @@
    ("K" :> DUnion("nsb", "", TRUE, <<Tag("red", TVoid), Tag("green", TVoid)>>)) @@
    ("L" :> DStruct("nsb", "", <<Fld("l1", I32b)>>, <<>>, FALSE)) @@
    ("AL" :> DAlias("nsb", TList(TRef("L"), Unset, Unset), "")) @@      \* alias of a list of structs
    ("OL" :> DAlias("nsb", TNull(TRef("L")), "")) @@                    \* alias of a nullable struct
    ("E" :> DStruct("nsa", "", <<Fld("e1", TNull(TStr(Unset, Unset, ""))), FldD("e2", TInt("Int64", Unset, Unset), VInt(13))>>, <<>>, FALSE)) @@
    ("S" :> DStruct("nsa", "", <<Fld("f1", X), Fld("f2", TNull(TRef("A"))), FldD("f3", I32b, VInt(12))>>, <<>>, FALSE)) @@
    ("C" :> DStruct("nsa", "S", <<Fld("g1", TRef("L")), Fld("g2", TNull(TList(TRef("L"), Unset, Unset))),
                                  Fld("g3", TNull(TMap(TRef("L")))), FldD("g4", TRef("K"), VUnion("K", "green", VNone)),
                                  Fld("g5", TNull(TRef("U"))), Fld("g6", TNull(TRef("P")))>>, <<>>, FALSE)) @@
    ("P" :> DStruct("nsa", "", <<Fld("p1", I32b)>>, <<Sub("q", "Q"), Sub("r", "R")>>, TRUE)) @@
    ("Q" :> DStruct("nsa", "P", <<Fld("q1", TRef("K"))>>, <<>>, FALSE)) @@
    ("R" :> DStruct("nsa", "P", <<Fld("r1", TNull(TRef("L")))>>, <<>>, FALSE)) @@
    ("U" :> DUnion("nsa", "", FALSE, <<Tag("tv", TVoid), Tag("tp", X), Tag("ts", TRef("E")), Tag("tn", TNull(TRef("S"))),
                                        Tag("tt", TRef("P")), Tag("tu", TRef("K")), Tag("tl", TList(TRef("L"), Unset, Unset)),
                                        \* members typed by a LEAF of the subtype tree (flattened like any struct), also nullable
                                        Tag("tq", TRef("Q")), Tag("tqn", TNull(TRef("R"))),
                                        \* members named through aliases of containers / nullables
                                        Tag("tal", TRef("AL")), Tag("tol", TRef("OL"))>>)) @@
    ("V" :> DUnion("nsa", "U", FALSE, <<Tag("tw", TNull(TRef("L"))), Tag("tx", TVoid)>>))
Examples(i) ==
    LET x == Slots[i].x IN
    ("L" :> <<Ex("default", "l1" :> XLit(VInt(10))), Ex("other", "l1" :> XLit(VInt(7)))>>) @@
    ("E" :> <<Ex("default", <<>>), Ex("full", ("e1" :> XLit(CStr(1, TRUE, 0))) @@ ("e2" :> XLit(VInt(10))))>>) @@
    ("S" :> <<Ex("default", "f1" :> x),
              Ex("alt", ("f1" :> x) @@ ("f2" :> XLit(CStr(2, TRUE, 0))) @@ ("f3" :> XLit(VInt(7))))>>) @@
    ("C" :> <<Ex("default", ("f1" :> x) @@ ("g1" :> XRef("default"))),
              Ex("full", ("f1" :> x) @@ ("f2" :> XNull) @@ ("g1" :> XRef("other")) @@ ("g2" :> XList(<<XRef("default"), XRef("other")>>))
                         @@ ("g3" :> XMap("k1" :> XRef("default"))) @@ ("g4" :> XRef("red")) @@ ("g5" :> XRef("ex_ts"))
                         @@ ("g6" :> XRef("second")))>>) @@
    ("Q" :> <<Ex("default", ("p1" :> XLit(VInt(10))) @@ ("q1" :> XRef("green")))>>) @@
    ("R" :> <<Ex("default", ("p1" :> XLit(VInt(11)))), Ex("withl", ("p1" :> XLit(VInt(7))) @@ ("r1" :> XRef("default")))>>) @@
    ("P" :> <<Ex("default", "q" :> XRef("default")), Ex("second", "r" :> XRef("withl"))>>) @@
    ("U" :> <<Ex("ex_tp", "tp" :> x), Ex("ex_ts", "ts" :> XRef("full")), Ex("ex_tn_null", "tn" :> XNull),
              Ex("ex_tn", "tn" :> XRef("alt")), Ex("ex_tt", "tt" :> XRef("second")), Ex("ex_tu", "tu" :> XRef("red")),
              Ex("ex_tl", "tl" :> XList(<<XRef("default")>>)), Ex("ex_tq", "tq" :> XRef("default")),
              Ex("ex_tqn", "tqn" :> XRef("withl")), Ex("ex_tqn_null", "tqn" :> XNull),
              Ex("ex_tal", "tal" :> XList(<<XRef("default"), XRef("other")>>)), Ex("ex_tol", "tol" :> XRef("other"))>>) @@
    ("V" :> <<Ex("ex_tw", "tw" :> XRef("other")), Ex("ex_inherited", "ts" :> XRef("default"))>>) @@
    ("K" :> <<>>) @@ ("A" :> <<>>) @@ ("AL" :> <<>>) @@ ("OL" :> <<>>)
ExByLabel(exs, n, label) == LET s == SelectSeq(exs[n], LAMBDA e : e.label = label) IN s
\* the labels a type has: declared ones, plus one per void tag for unions (own and inherited)
Labels(sc, exs, n) ==
    {exs[n][i].label : i \in DOMAIN exs[n]} \cup
    (IF sc[n].k = "union" THEN {t.n : t \in {x \in Range(AllTagsDeclared(sc, n)) : x.t.k = "void"}} ELSE {})
RECURSIVE ExampleValue(_, _, _, _), XValue(_, _, _, _)
\* the value of example-expression x for a position of type t
XValue(sc, exs, t, x) ==
    CASE x.k = "null" -> VNone
      [] x.k = "lit"  -> x.v
      [] x.k = "list" -> VList([j \in DOMAIN x.items |-> XValue(sc, exs, Under(sc, t).e, x.items[j])])
      [] x.k = "map"  -> VMap([key \in DOMAIN x.m |-> XValue(sc, exs, Under(sc, t).v, x.m[key])])
      [] x.k = "ref"  -> ExampleValue(sc, exs, Under(sc, t).n, x.label)
ExampleValue(sc, exs, n, label) ==
    LET d == sc[n] IN
    IF d.k = "union" THEN
         LET own == {[u |-> n, e |-> e] : e \in {y \in Range(exs[n]) : y.label = label}}
         IN  IF own = {} THEN VUnion(n, label, VNone)                 \* the implicit example of a void tag
             ELSE LET oe == CHOOSE z \in own : TRUE
                      tag == CHOOSE tg \in DOMAIN oe.e.assigns : TRUE
                  IN  VUnion(n, tag, XValue(sc, exs, TagByName(sc, n, tag).t, oe.e.assigns[tag]))
    ELSE IF d.subs # <<>> THEN
         \* an enumerated-subtype root names one subtype tag with a reference to that subtype's example
         LET e == ExByLabel(exs, n, label)[1]
             tag == CHOOSE tg \in DOMAIN e.assigns : TRUE
         IN  ExampleValue(sc, exs, SubOfTag(sc, n, tag), e.assigns[tag].label)
    ELSE LET e == ExByLabel(exs, n, label)[1]
             fs == AllFields(sc, n)
             val(f) == IF f.n \in DOMAIN e.assigns THEN XValue(sc, exs, f.t, e.assigns[f.n])
                       ELSE IF f.d.k # "nodefault" THEN f.d ELSE VNone      \* defaults are part of the example
             m == [fn \in SeqNames(fs) |-> val(FieldByName(fs, fn))]
         IN  VStruct(n, [fn \in {y \in SeqNames(fs) : m[y].k # "none"} |-> m[fn]])

\* ------------------------------------------------------------- the machine
Init == pick = [k |-> "none"]
PickDefault == /\ Mode = "defaults" /\ pick.k = "none"
               /\ \E i \in DOMAIN DTypes, l \in {x \in Lits : LitOk(x)} : pick' = [k |-> "default", ti |-> i, lit |-> l]
PickExample == /\ Mode = "examples" /\ pick.k = "none"
               /\ \E i \in DOMAIN Slots :
                    \E n \in {x \in DOMAIN ESchema(i) : ESchema(i)[x].k \in {"struct", "union"}} :
                       \E label \in Labels(ESchema(i), Examples(i), n) :
                          pick' = [k |-> "example", slot |-> i, n |-> n, label |-> label]
Next == PickDefault \/ PickExample
Spec == Init /\ [][Next]_vars

\* ------------------------------------------------------------- properties
DefaultsValid ==
    pick.k = "default" =>
        (CompileLit(DSchema, DTypes[pick.ti], pick.lit) = "acc"
            => RuntimeAccepts(DSchema, DTypes[pick.ti], ValueOf(DSchema, DTypes[pick.ti], pick.lit)) = "acc")
EV == ExampleValue(ESchema(pick.slot), Examples(pick.slot), pick.n, pick.label)
EDoc == Encode(ESchema(pick.slot), TRef(pick.n), EV, {})
ExamplesValid ==
    pick.k = "example" =>
        /\ Valid(ESchema(pick.slot), TRef(pick.n), EV, {})
        /\ EDoc.k # "encerr"
        /\ Dec(ESchema(pick.slot), TRef(pick.n), EDoc, TRUE, {}, {}) = Ok(EV)
        /\ Encode(ESchema(pick.slot), TRef(pick.n), Dec(ESchema(pick.slot), TRef(pick.n), EDoc, TRUE, {}, {}).v, {}) = EDoc

Vector ==
    CASE pick.k = "default" ->
           [mode |-> "default", schema |-> DSchema, t |-> DTypes[pick.ti], lit |-> pick.lit,
            compile |-> CompileLit(DSchema, DTypes[pick.ti], pick.lit),
            value |-> ValueOf(DSchema, DTypes[pick.ti], pick.lit)]
      [] pick.k = "example" ->
           [mode |-> "example", slot |-> pick.slot, schema |-> ESchema(pick.slot), examples |-> Examples(pick.slot),
            n |-> pick.n, label |-> pick.label, value |-> EV, doc |-> EDoc]
      [] OTHER -> [mode |-> "none"]
Emit == IF EmitVectors /\ pick.k # "none" THEN PrintT(<<"VEC", ToJson(Vector)>>) ELSE TRUE
=============================================================================

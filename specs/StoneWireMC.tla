---------------------------- MODULE StoneWireMC ----------------------------
(***************************************************************************)
(* Two peers and a channel (DESIGN 3.5).  A sender composes a value of a   *)
(* type of a schema, encodes it, an adversary may edit the document, the   *)
(* receiver decodes it strictly or leniently.  TLC enumerates every        *)
(* (schema, type, value, edit) of the universe below, checks the algebraic *)
(* properties of the documented wire format on each, and prints one        *)
(* vector per state carrying the predicted observable result, which the    *)
(* harness replays through the generated Python classes (C04 C05 C06).     *)
(***************************************************************************)
EXTENDS StoneWire, Json

CONSTANTS Shard, NShards,       \* vector emission is sharded over JVMs
          CfgSel,               \* the schema indices explored by this run
          MaxTamper,            \* 0, 1 or 2 edits per message
          Depth,                \* value-generation depth
          EmitVectors           \* TRUE: print vectors

VARIABLES phase, cfg, root, val, doc, nt,
          rs, rl      \* what the documents say a strict / lenient receiver answers
vars == <<phase, cfg, root, val, doc, nt, rs, rl>>

\* ------------------------------------------------------------ the universe
I32b  == TInt("Int32", 7, 12)            \* Int32(min_value=-2, max_value=3)
Str13 == TStr(1, 3, "")
SlotTypes == <<
    I32b,
    TInt("UInt64", Unset, Unset),
    TInt("Int64", Unset, Unset),
    TFloat("Float32", Unset, Unset),
    TFloat("Float64", 5, 11),            \* Float64(min_value=-1.5, max_value=1.5)
    TStr(1, 3, "p1"),
    TStr(Unset, Unset, ""),
    TBytes(Unset, Unset),
    TBool,
    TTs("f1"),
    TTs("f2"),
    TTs("f3"),                           \* a format with fractions of a second
    TInt("Int32", 9, Unset),             \* Int32(min_value=0): a bound that is exactly zero
    TInt("Int64", Unset, 9),             \* Int64(max_value=0)
    TList(I32b, 1, 2),
    TList(TList(TBool, Unset, Unset), Unset, 2),
    TMap(TNull(TRef("L"))),
    TList(TMap(TRef("K")), Unset, Unset),
    TList(TRef("L"), Unset, 2),
    TRef("K"),
    TRef("E"),
    TRef("A"),
    \* containers whose ITEMS have an encoding of their own (base64 text, formatted time)
    TList(TBytes(Unset, Unset), Unset, 2),
    TList(TTs("f3"), 1, Unset),
    TMap(TTs("f1"))
  >>

Cfgs == {[x |-> i, uc |-> uc, pc |-> pc] :
            i \in DOMAIN SlotTypes, uc \in BOOLEAN, pc \in BOOLEAN}

Schema(c) ==
    LET X == SlotTypes[c.x] IN
    ("A" :> DAlias("nsb", Str13, "")) @@
    \* an alias of the root of a subtype tree: a value declared through it still carries its subtype tag
    ("Pa" :> DAlias("nsa", TRef("P"), "")) @@
    ("K" :> DUnion("nsb", "", TRUE, <<Tag("red", TVoid), Tag("green", TVoid)>>)) @@
    ("L" :> DStruct("nsb", "", <<Fld("l1", I32b)>>, <<>>, FALSE)) @@
    ("E" :> DStruct("nsa", "", <<Fld("e1", TNull(TStr(Unset, Unset, ""))),
                                 FldD("e2", TInt("Int64", Unset, Unset), VInt(13))>>, <<>>, FALSE)) @@
    ("S" :> DStruct("nsa", "", <<Fld("f1", X), Fld("f2", TNull(TRef("A"))),
                                 FldD("f3", I32b, VInt(12))>>, <<>>, FALSE)) @@
    ("C" :> DStruct("nsa", "S", <<Fld("g1", TRef("E")), Fld("g2", TNull(TBool))>>, <<>>, FALSE)) @@
    ("P" :> DStruct("nsa", "", <<Fld("p1", I32b)>>, <<Sub("q", "Q"), Sub("r", "R")>>, c.pc)) @@
    ("Q" :> DStruct("nsa", "P", <<Fld("q1", X)>>, <<>>, FALSE)) @@
    ("R" :> DStruct("nsa", "P", <<Fld("r1", TNull(TRef("L")))>>, <<>>, FALSE)) @@
    \* M: parent in another namespace, required fields only inherited
    ("M" :> DStruct("nsa", "L", <<Fld("m1", TNull(TBool))>>, <<>>, FALSE)) @@
    ("H" :> DStruct("nsa", "", <<Fld("h1", TRef("M")), Fld("h2", TNull(TRef("Q"))),
                                 Fld("h3", TNull(TList(TRef("M"), Unset, 1))),
                                 FldD("h4", TRef("K"), VUnion("K", "green", VNone)),
                                 Fld("h5", TNull(TRef("Pa")))>>, <<>>, FALSE)) @@
    ("U" :> DUnion("nsa", "", c.uc,
                   <<Tag("tv", TVoid), Tag("tn", TNull(TRef("S"))), Tag("tp", X),
                     Tag("ts", TRef("C")), Tag("tu", TRef("K")), Tag("tt", TRef("P")),
                     Tag("te", TNull(TRef("E"))), Tag("tl", TList(TRef("K"), Unset, Unset)),
                     Tag("tq", TNull(I32b)),
                     \* every remaining member kind x nullable
                     Tag("tql", TRef("Q")), Tag("tr", TNull(TRef("R"))), Tag("tto", TNull(TRef("P"))),
                     Tag("tuo", TNull(TRef("K"))), Tag("tm", TMap(I32b)),
                     Tag("tlo", TNull(TList(I32b, 1, 2))), Tag("ta", TRef("A")), Tag("th", TRef("H")),
                     \* a tag named like a field of its (flattened) struct member: C has a field g1 that encodes as an object
                     Tag("g1", TRef("C")),
                     Tag("tpa", TRef("Pa"))>>)) @@
    ("V" :> DUnion("nsa", "U", c.uc, <<Tag("tw", TNull(TRef("A"))), Tag("tx", TVoid)>>)) @@
    \* a third level: only the root of a chain of open unions owns the catch-all
    ("W" :> DUnion("nsa", "V", c.uc, <<Tag("ty", TVoid), Tag("tz", TRef("L"))>>))

UserRoots == {"A", "K", "L", "E", "S", "C", "P", "U", "V", "W", "H", "M", "Q", "Pa"}
Roots == {TRef(n) : n \in UserRoots}
         \cup {TList(TRef(n), 1, 2) : n \in {"S", "U", "P"}}
         \cup {TMap(TRef(n)) : n \in {"C", "V"}}
         \cup {TNull(TRef(n)) : n \in {"S", "U"}}
TagPool == {"tv", "tn", "tp", "ts", "red", "q", "r", "other", "zz", "tw", "tql"}

CfgIndex(c) == (c.x - 1) * 4 + (IF c.uc THEN 2 ELSE 0) + (IF c.pc THEN 1 ELSE 0)
\* the types A, K, L, E do not depend on the configuration: explored once
RootsFor(c) == IF CfgIndex(c) = 0 THEN Roots
               ELSE Roots \ {TRef("A"), TRef("K"), TRef("L"), TRef("E"), TRef("M")}

\* ------------------------------------------------------------ the machine
None == [k |-> "none"]
Init == /\ phase = "init"
        /\ cfg \in {c \in Cfgs : CfgIndex(c) \in CfgSel /\ CfgIndex(c) % NShards = Shard}
        /\ root = None /\ val = None /\ doc = None /\ nt = 0 /\ rs = None /\ rl = None

PickRoot == /\ phase = "init"
            /\ root' \in RootsFor(cfg)
            /\ phase' = "root"
            /\ UNCHANGED <<cfg, val, doc, nt, rs, rl>>

Compose == /\ phase = "root"
           /\ val' \in Vals(Schema(cfg), root, Depth, {})
           /\ doc' = Encode(Schema(cfg), root, val', {})
           /\ rs' = Dec(Schema(cfg), root, doc', TRUE, {}, {})
           /\ rl' = Dec(Schema(cfg), root, doc', FALSE, {}, {})
           /\ phase' = "sent"
           /\ UNCHANGED <<cfg, root, nt>>

Tamper == /\ phase \in {"sent", "tampered"}
          /\ nt < MaxTamper
          /\ doc' \in Tampers(doc, TagPool)
          /\ rs' = Dec(Schema(cfg), root, doc', TRUE, {}, {})
          /\ rl' = Dec(Schema(cfg), root, doc', FALSE, {}, {})
          /\ nt' = nt + 1
          /\ phase' = "tampered"
          /\ UNCHANGED <<cfg, root, val>>

Next == PickRoot \/ Compose \/ Tamper
Spec == Init /\ [][Next]_vars

\* ------------------------------------------------------------ properties
SC == Schema(cfg)

\* Canon (the identification of an all-unset nullable struct member with null) is defined in StoneWire

Sent == phase = "sent"

ValuesAreValid == Sent => Valid(SC, root, val, {})
EncodeSucceeds == Sent => doc.k # "encerr"
RoundTrip == Sent => rs = Ok(Canon(SC, val)) /\ rl = Ok(Canon(SC, val))
Idempotent ==
    Sent => /\ rs.k = "ok" => Encode(SC, root, rs.v, {}) = doc
            /\ rl.k = "ok" => Encode(SC, root, rl.v, {}) = doc
\* whatever the adversary did, an accepted document yields a valid value
DecodedIsValid ==
    (phase \in {"sent", "tampered"}) =>
        /\ rs.k = "ok" => Valid(SC, root, rs.v, {})
        /\ rl.k = "ok" => Valid(SC, root, rl.v, {})
\* strict accepts a subset of lenient, with the same value
StrictRefinesLenient ==
    (phase \in {"sent", "tampered"}) => (rs.k = "ok" => rl = rs)
\* the listed departures change nothing on untampered messages
DevsOnlyOnFaults ==
    Sent => /\ Dec(SC, root, doc, TRUE, {}, {"dev_allopt_default"}) = rs
            /\ Dec(SC, root, doc, FALSE, {}, {"dev_allopt_default"}) = rl

\* ------------------------------------------------------------ vectors
Devs == {"dev_allopt_default"}
RootSeq == SetToSeq(Roots)
RootIdx(r) == CHOOSE i \in DOMAIN RootSeq : RootSeq[i] = r
\* compact: results equal to the sent value / to each other are abbreviated
Vector ==
    LET ds == Dec(SC, root, doc, TRUE, {}, Devs)
        dl == Dec(SC, root, doc, FALSE, {}, Devs)
        same == [k |-> "same"]
    IN  [phase |-> phase, cfg |-> CfgIndex(cfg), root |-> RootIdx(root), doc |-> doc,
         strict |-> IF phase = "sent" /\ rs = Ok(val) THEN same ELSE rs,
         lenient |-> IF rl = rs THEN same ELSE rl]
        @@ (IF phase = "sent" THEN [val |-> val] ELSE <<>>)
        @@ (IF ds # rs THEN [dstrict |-> ds] ELSE <<>>)
        @@ (IF dl # rl THEN [dlenient |-> dl] ELSE <<>>)
SchemaVector == [phase |-> "schema", cfg |-> CfgIndex(cfg), schema |-> Schema(cfg),
                 roots |-> RootSeq]
\* exploring the initial states only: the schema vectors (used by drivers on the implementation side)
OnlyInit == phase = "init"
Emit ==
    IF ~EmitVectors THEN TRUE
    ELSE CASE phase = "init" -> PrintT(<<"VEC", ToJson(SchemaVector)>>)
           [] phase \in {"sent", "tampered"} -> PrintT(<<"VEC", ToJson(Vector)>>)
           [] OTHER -> TRUE
=============================================================================

--------------------------- MODULE StoneRunsTrace ---------------------------
(***************************************************************************)
(* Trace validation for C12: the log of runs recorded from real processes  *)
(* (one JSON object per run: history id, hash seed, position in the        *)
(* history, backend row, spec set, output directory, digest of the files   *)
(* written) is consumed event by event.  memo is the function Generate     *)
(* reconstructed so far; an event whose digest differs from memo for the   *)
(* same input cannot be explained by the specification.  Verdicts are      *)
(* total: the run continues and the failing events are collected in `bad`. *)
(***************************************************************************)
EXTENDS Naturals, Sequences, FiniteSets, TLC, Json, IOUtils

Trace == ndJsonDeserialize(IOEnv.TRACE_FILE)
VARIABLES l, memo, bad
vars == <<l, memo, bad>>

Key(e) == <<e.row, e.spec>>
Init == /\ l = 1 /\ memo = [x \in {} |-> ""] /\ bad = <<>>
        /\ TLCSet(42, <<"incomplete">>)
Step == /\ l <= Len(Trace)
        /\ LET e == Trace[l] IN
           IF Key(e) \in DOMAIN memo
           THEN /\ memo' = memo
                /\ bad' = IF memo[Key(e)] = e.digest THEN bad
                          ELSE Append(bad, [line |-> l, row |-> e.row, spec |-> e.spec, seed |-> e.seed, hid |-> e.hid])
           ELSE /\ memo' = (Key(e) :> e.digest) @@ memo
                /\ bad' = bad
        /\ l' = l + 1
Spec == Init /\ [][Step]_vars
\* always true; copies the verdict into a register once the whole trace is consumed
Final == (l = Len(Trace) + 1) => TLCSet(42, bad)
Accepted == IF TLCGet(42) = <<>> THEN TRUE ELSE Print(<<"BAD", ToJson(TLCGet(42))>>, FALSE)
=============================================================================

SPECIFICATION Spec
CONSTANTS
  Shard = 0
  NShards = 76
  MaxTamper = 0
  Depth = 2
  EmitVectors = TRUE
INVARIANT ValuesAreValid
INVARIANT EncodeSucceeds
INVARIANT RoundTrip
INVARIANT Idempotent
INVARIANT DecodedIsValid
INVARIANT StrictRefinesLenient
INVARIANT DevsOnlyOnFaults
CONSTRAINT Emit
CHECK_DEADLOCK FALSE

---------------------------- MODULE StoneEvolveMC ----------------------------
(***************************************************************************)
(* C07: histories of a spec.  Spec B results from spec A by 1..MaxEdits    *)
(* changes that docs/evolve_spec.rst lists as backwards compatible, applied *)
(* at any site (also sites only reached through nesting).  A sender with   *)
(* one version composes and encodes a value, a receiver with the other     *)
(* version decodes it strictly or leniently.  View and Lossy state what    *)
(* the guide promises, independently of the decoder rules of StoneWire;    *)
(* TLC checks that the documented wire format and decoding rules imply the *)
(* promises for every (history, type, value); every state is replayed with *)
(* two generated packages.                                                 *)
(***************************************************************************)
EXTENDS StoneWire, Json

CONSTANTS MaxEdits, Shard, NShards, EmitVectors
VARIABLES phase, specB, edits, ren, dir, root, val, doc, rs, rl
vars == <<phase, specB, edits, ren, dir, root, val, doc, rs, rl>>

I32b  == TInt("Int32", 7, 12)
Str13 == TStr(1, 3, "")
Str   == TStr(Unset, Unset, "")

SpecA ==
    ("A" :> DAlias("nsb", Str13, "")) @@
    ("K" :> DUnion("nsb", "", TRUE, <<Tag("red", TVoid), Tag("green", TVoid)>>)) @@
    ("L" :> DStruct("nsb", "", <<Fld("l1", I32b)>>, <<>>, FALSE)) @@
    \* E's second field defaults to a tag of a union of the same namespace whose name comes AFTER E's
    ("E" :> DStruct("nsa", "", <<Fld("e1", TNull(Str)), FldD("e2", TRef("Z"), VUnion("Z", "zb", VNone))>>, <<>>, FALSE)) @@
    ("Z" :> DUnion("nsa", "", TRUE, <<Tag("za", TVoid), Tag("zb", TVoid)>>)) @@
    ("S" :> DStruct("nsa", "", <<Fld("f1", I32b), Fld("f2", TNull(TRef("A"))),
                                 FldD("f3", I32b, VInt(12))>>, <<>>, FALSE)) @@
    ("C" :> DStruct("nsa", "S", <<Fld("g1", TRef("L")), Fld("g2", TNull(TList(TRef("S"), Unset, 1)))>>, <<>>, FALSE)) @@
    ("P" :> DStruct("nsa", "", <<Fld("p1", I32b)>>, <<Sub("q", "Q"), Sub("r", "R")>>, TRUE)) @@
    ("Q" :> DStruct("nsa", "P", <<Fld("q1", TRef("K"))>>, <<>>, FALSE)) @@
    ("R" :> DStruct("nsa", "P", <<Fld("r1", TNull(TRef("L")))>>, <<>>, FALSE)) @@
    ("U" :> DUnion("nsa", "", FALSE,
                   <<Tag("tv", TVoid), Tag("tn", TNull(TRef("S"))), Tag("tp", I32b),
                     Tag("ts", TRef("C")), Tag("tu", TRef("K")), Tag("tt", TRef("P")),
                     Tag("tm", TMap(TRef("L"))),
                     \* a nullable member whose struct has no required field: "null" and "no known field" look alike
                     Tag("te", TNull(TRef("E")))>>)) @@
    ("V" :> DUnion("nsa", "U", FALSE, <<Tag("tw", TNull(TRef("U"))), Tag("tx", TVoid)>>)) @@
    \* a third level: only the root of a chain of open unions owns the catch-all
    ("V3" :> DUnion("nsa", "V", FALSE, <<Tag("ty", TVoid)>>)) @@
    ("W" :> DStruct("nsa", "", <<Fld("w1", TRef("U")), Fld("w2", TNull(TRef("V"))),
                                 Fld("w3", TNull(TRef("P"))),
                                 \* every evolving type also as list element and map value
                                 Fld("w4", TNull(TList(TRef("P"), Unset, 2))), Fld("w5", TNull(TMap(TRef("P")))),
                                 Fld("w6", TNull(TList(TRef("U"), Unset, 2))), Fld("w7", TNull(TMap(TRef("C")))),
                                 Fld("w8", TNull(TRef("V3")))>>,
                     <<>>, FALSE))

Structs(sc) == {n \in DOMAIN sc : sc[n].k = "struct"}
Unions(sc)  == {n \in DOMAIN sc : sc[n].k = "union"}
RootNames == {"S", "C", "P", "U", "V", "V3", "W", "L", "K"}

\* ------------------------------------------------------------- edit actions
NewFieldTypes == {TNull(Str13), TNull(TRef("L")), TNull(TList(I32b, Unset, 1))}
NewTagTypes   == {TVoid, I32b, TRef("L"), TNull(TRef("E")), TRef("K"), TList(I32b, Unset, 1)}
VoidToTypes   == {I32b, TNull(Str), TRef("L"), TNull(TRef("L")), TRef("K"), TList(I32b, Unset, 1), TRef("P")}

HasField(sc, n, f) == f \in SeqNames(FieldsInherited(sc, n)) \/
                      \E c \in Structs(sc) : IsSubclass(sc, c, n) /\ f \in SeqNames(sc[c].fields)
AddField(sc, n, f) == [sc EXCEPT ![n].fields = Append(@, f)]
AddTagTo(sc, u, tg) == [sc EXCEPT ![u].tags = Append(@, tg)]
SetTagType(sc, u, tn, t) ==
    LET tgs == sc[u].tags
    IN  [sc EXCEPT ![u].tags = [i \in DOMAIN tgs |-> IF tgs[i].n = tn THEN [tgs[i] EXCEPT !.t = t] ELSE tgs[i]]]
\* renaming: type names do not occur on the wire
RECURSIVE RenT(_, _, _)
RenT(t, old, new) ==
    CASE t.k = "ref"      -> IF t.n = old THEN TRef(new) ELSE t
      [] t.k = "list"     -> [t EXCEPT !.e = RenT(t.e, old, new)]
      [] t.k = "nullable" -> [t EXCEPT !.e = RenT(t.e, old, new)]
      [] t.k = "map"      -> [t EXCEPT !.v = RenT(t.v, old, new)]
      [] OTHER            -> t
RenV(v, old, new) == IF v.k = "union" /\ v.c = old THEN [v EXCEPT !.c = new] ELSE v
RenN(n, old, new) == IF n = old THEN new ELSE n
RenDef(d, old, new) ==
    CASE d.k = "alias"  -> [d EXCEPT !.t = RenT(d.t, old, new)]
      [] d.k = "struct" ->
           [d EXCEPT !.parent = RenN(d.parent, old, new),
                     !.fields = [i \in DOMAIN d.fields |->
                                   [d.fields[i] EXCEPT !.t = RenT(d.fields[i].t, old, new),
                                                       !.d = RenV(d.fields[i].d, old, new)]],
                     !.subs = [i \in DOMAIN d.subs |-> [d.subs[i] EXCEPT !.sub = RenN(d.subs[i].sub, old, new)]]]
      [] d.k = "union"  ->
           [d EXCEPT !.parent = RenN(d.parent, old, new),
                     !.tags = [i \in DOMAIN d.tags |-> [d.tags[i] EXCEPT !.t = RenT(d.tags[i].t, old, new)]]]
Rename(sc, old, new) ==
    [n \in (DOMAIN sc \ {old}) \cup {new} |-> RenDef(sc[IF n = new THEN old ELSE n], old, new)]

\* an edit is enabled on the current B; it yields <<name, B'>>
EditsOf(sc) ==
    {<<[e |-> "add_optional_field", at |-> n, t |-> t], AddField(sc, n, Fld("nf", t))>> :
        n \in {x \in Structs(sc) : ~HasField(sc, x, "nf")}, t \in NewFieldTypes}
    \cup
    {<<[e |-> "add_defaulted_field", at |-> n], AddField(sc, n, FldD("nd", I32b, VInt(12)))>> :
        n \in {x \in Structs(sc) : ~HasField(sc, x, "nd")}}
    \cup
    {<<[e |-> "add_tag_open_union", at |-> u, t |-> t], AddTagTo(sc, u, Tag("nt", t))>> :
        u \in {x \in Unions(sc) : IsOpenUnion(sc, x) /\ "nt" \notin TagNames(sc, x) /\
                                  \A c \in Unions(sc) : IsSubclass(sc, c, x) => "nt" \notin TagNames(sc, c)},
        t \in NewTagTypes}
    \cup
    UNION {{<<[e |-> "void_tag_gets_type", at |-> u, tag |-> tn, t |-> t], SetTagType(sc, u, tn, t)>> : t \in VoidToTypes}
           : u \in Unions(sc), tn \in {"tv", "tx", "red"} }
    \cup
    {<<[e |-> "add_subtype_under_catch_all", at |-> n],
       [sc EXCEPT ![n].subs = Append(@, Sub("nn", "N"))] @@
       ("N" :> DStruct(sc[n].ns, n, <<Fld("n1", I32b), Fld("n2", TNull(TRef("L")))>>, <<>>, FALSE))>> :
        n \in {x \in Structs(sc) : sc[x].subs # <<>> /\ sc[x].catchall /\ "N" \notin DOMAIN sc}}
    \cup
    {<<[e |-> "rename_type", at |-> n], Rename(sc, n, n \o "x")>> : n \in {"S", "K", "U", "A"} \cap DOMAIN sc}
    \cup
    {<<[e |-> "introduce_alias", at |-> n],
       [sc EXCEPT ![n].fields = [i \in DOMAIN sc[n].fields |->
                                   IF i = 1 THEN [sc[n].fields[i] EXCEPT !.t = TRef("Na")] ELSE sc[n].fields[i]]] @@
       ("Na" :> DAlias(sc[n].ns, sc[n].fields[1].t, ""))>> :
        n \in {x \in Structs(sc) : "Na" \notin DOMAIN sc /\ sc[x].fields # <<>>}}
    \cup
    {<<[e |-> "inline_alias", at |-> "A"],
       [n \in DOMAIN sc \ {"A"} |->
          CASE sc[n].k = "struct" ->
                 [sc[n] EXCEPT !.fields = [i \in DOMAIN sc[n].fields |->
                     IF sc[n].fields[i].t = TNull(TRef("A")) THEN [sc[n].fields[i] EXCEPT !.t = TNull(Str13)]
                     ELSE IF sc[n].fields[i].t = TRef("A") THEN [sc[n].fields[i] EXCEPT !.t = Str13]
                     ELSE sc[n].fields[i]]]
            [] OTHER -> sc[n]]>> : x \in {1} \cap (IF "A" \in DOMAIN sc THEN {1} ELSE {})}
    \cup
    {<<[e |-> "add_route", at |-> "nsa"], sc>>}

\* every reference of the edited schema still has a target (a type added after a rename must not use the old name)
RECURSIVE RefsOfType(_)
RefsOfType(t) == CASE t.k = "ref" -> {t.n} [] t.k \in {"list", "nullable"} -> RefsOfType(t.e) [] t.k = "map" -> RefsOfType(t.v)
                   [] OTHER -> {}
RefsOfDef(d) == CASE d.k = "alias"  -> RefsOfType(d.t)
                  [] d.k = "struct" -> (IF d.parent = "" THEN {} ELSE {d.parent}) \cup UNION {RefsOfType(d.fields[i].t) : i \in DOMAIN d.fields}
                                       \cup {d.subs[i].sub : i \in DOMAIN d.subs}
                  [] d.k = "union"  -> (IF d.parent = "" THEN {} ELSE {d.parent}) \cup UNION {RefsOfType(d.tags[i].t) : i \in DOMAIN d.tags}
RefsClosed(sc) == \A n \in DOMAIN sc : RefsOfDef(sc[n]) \subseteq DOMAIN sc
\* `void_tag_gets_type` only applies where the tag exists and is Void
\* nsa imports nsb: no type of nsb may come to refer to a type of nsa (a circular import is not a legal spec; it also keeps
\* the types acyclic for the value generator: K is used inside P (Q.q1)), under whatever name a rename has given it
NsAcyclic(sc) == \A n \in DOMAIN sc : sc[n].ns = "nsb" => \A m \in RefsOfDef(sc[n]) : sc[m].ns = "nsb"
EditOk(sc, ed) ==
    /\ RefsClosed(ed[2])
    /\ NsAcyclic(ed[2])
    /\ ed[1].e = "void_tag_gets_type" =>
        /\ ed[1].t # TRef(ed[1].at)
        /\ \E i \in DOMAIN sc[ed[1].at].tags :
              /\ sc[ed[1].at].tags[i].t # ed[2][ed[1].at].tags[i].t
              /\ sc[ed[1].at].tags[i].t.k = "void"

\* ------------------------------------------------------------- names across versions
\* ren: B-name -> A-name for renamed types (identity elsewhere)
ToA(n) == IF n \in DOMAIN ren THEN ren[n] ELSE n
ToB(n) == IF \E b \in DOMAIN ren : ren[b] = n THEN CHOOSE b \in DOMAIN ren : ren[b] = n ELSE n
RECURSIVE TypeToA(_), TypeToB(_)
TypeToA(t) == CASE t.k = "ref" -> TRef(ToA(t.n))
                [] t.k = "list" -> [t EXCEPT !.e = TypeToA(t.e)]
                [] t.k = "nullable" -> [t EXCEPT !.e = TypeToA(t.e)]
                [] t.k = "map" -> [t EXCEPT !.v = TypeToA(t.v)]
                [] OTHER -> t
TypeToB(t) == CASE t.k = "ref" -> TRef(ToB(t.n))
                [] t.k = "list" -> [t EXCEPT !.e = TypeToB(t.e)]
                [] t.k = "nullable" -> [t EXCEPT !.e = TypeToB(t.e)]
                [] t.k = "map" -> [t EXCEPT !.v = TypeToB(t.v)]
                [] OTHER -> t

\* ------------------------------------------------------------- what the guide promises
\* View(t, v): the A-view of value v of B-type t.  Lossy(t, v): v contains
\* something A does not know.
RECURSIVE View(_, _), Lossy(_, _)
KnownStruct(c) == ToA(c) \in DOMAIN SpecA
\* the class A sees for an instance of B-class c below declared B-type n
SeenClass(n, c) == IF KnownStruct(c) THEN c ELSE n        \* unknown subtype -> base struct
View(t, v) ==
    IF v.k = "none" THEN v ELSE
    CASE t.k = "nullable" -> View(t.e, v)
      [] t.k = "list" -> VList([i \in DOMAIN v.items |-> View(t.e, v.items[i])])
      [] t.k = "map"  -> VMap([key \in DOMAIN v.m |-> View(t.v, v.m[key])])
      [] t.k = "ref"  ->
           LET d == specB[t.n] IN
           (CASE d.k = "alias"  -> View(d.t, v)
             [] d.k = "struct" ->
                  LET c    == SeenClass(t.n, v.c)
                      fsB  == AllFields(specB, c)
                      keep == {f \in DOMAIN v.f : f \in SeqNames(AllFields(SpecA, ToA(c)))}
                  IN  VStruct(ToA(c), [f \in keep |-> View(FieldByName(fsB, f).t, v.f[f])])
             [] d.k = "union"  ->
                  LET uA == ToA(v.c) IN
                  IF v.tag \notin TagNames(SpecA, uA) THEN VUnion(uA, "other", VNone)
                  ELSE IF Unalias(SpecA, TagByName(SpecA, uA, v.tag).t).k = "void" THEN VUnion(uA, v.tag, VNone)
                  ELSE VUnion(uA, v.tag, View(TagByName(specB, v.c, v.tag).t, v.v)))
      [] OTHER -> v
Lossy(t, v) ==
    IF v.k = "none" THEN FALSE ELSE
    CASE t.k = "nullable" -> Lossy(t.e, v)
      [] t.k = "list" -> \E i \in DOMAIN v.items : Lossy(t.e, v.items[i])
      [] t.k = "map"  -> \E key \in DOMAIN v.m : Lossy(t.v, v.m[key])
      [] t.k = "ref"  ->
           LET d == specB[t.n] IN
           (CASE d.k = "alias"  -> Lossy(d.t, v)
             [] d.k = "struct" ->
                  \/ ~KnownStruct(v.c)
                  \/ \E f \in DOMAIN v.f :
                        \/ f \notin SeqNames(AllFields(SpecA, ToA(v.c)))
                        \/ Lossy(FieldByName(AllFields(specB, v.c), f).t, v.f[f])
             [] d.k = "union"  ->
                  \/ v.tag \notin TagNames(SpecA, ToA(v.c))
                  \/ /\ Unalias(SpecA, TagByName(SpecA, ToA(v.c), v.tag).t).k = "void"
                     /\ v.v.k # "none"
                  \/ /\ Unalias(SpecA, TagByName(SpecA, ToA(v.c), v.tag).t).k # "void"
                     /\ Lossy(TagByName(specB, v.c, v.tag).t, v.v))
      [] OTHER -> FALSE
\* Lift(v): an A-value seen with B's names
RECURSIVE Lift(_)
Lift(v) ==
    CASE v.k = "list"   -> VList([i \in DOMAIN v.items |-> Lift(v.items[i])])
      [] v.k = "map"    -> VMap([key \in DOMAIN v.m |-> Lift(v.m[key])])
      [] v.k = "struct" -> VStruct(ToB(v.c), [f \in DOMAIN v.f |-> Lift(v.f[f])])
      [] v.k = "union"  -> VUnion(ToB(v.c), v.tag, Lift(v.v))
      [] OTHER          -> v
\* the one direction the guide does not promise: an A-message through a tag that B
\* changed from Void to a non-nullable type
RECURSIVE ThroughChangedVoid(_, _)
ThroughChangedVoid(t, v) ==     \* t: A-type, v: A-value
    IF v.k = "none" THEN FALSE ELSE
    CASE t.k = "nullable" -> ThroughChangedVoid(t.e, v)
      [] t.k = "list" -> \E i \in DOMAIN v.items : ThroughChangedVoid(t.e, v.items[i])
      [] t.k = "map"  -> \E key \in DOMAIN v.m : ThroughChangedVoid(t.v, v.m[key])
      [] t.k = "ref"  ->
           LET d == SpecA[t.n] IN
           (CASE d.k = "alias"  -> ThroughChangedVoid(d.t, v)
             [] d.k = "struct" -> \E f \in DOMAIN v.f :
                                     ThroughChangedVoid(FieldByName(AllFields(SpecA, v.c), f).t, v.f[f])
             [] d.k = "union"  ->
                  LET tA == TagByName(SpecA, v.c, v.tag).t
                      tB == TagByName(specB, ToB(v.c), v.tag).t
                  IN  \/ (tA.k = "void" /\ tB.k # "void" /\ ~IsNullable(specB, tB))
                      \/ ThroughChangedVoid(tA, v.v))
      [] OTHER -> FALSE

\* ------------------------------------------------------------- the machine
None == [k |-> "none"]
Init == /\ phase = "edit" /\ specB = SpecA /\ edits = <<>> /\ ren = <<>>
        /\ dir = "" /\ root = None /\ val = None /\ doc = None /\ rs = None /\ rl = None

Edit == /\ phase = "edit" /\ Len(edits) < MaxEdits
        /\ \E ed \in EditsOf(specB) :
             /\ EditOk(specB, ed)
             /\ specB' = ed[2]
             /\ edits' = Append(edits, ed[1])
             /\ ren' = IF ed[1].e = "rename_type"
                       THEN ((ed[1].at \o "x") :> ToA(ed[1].at)) @@ [b \in DOMAIN ren \ {ed[1].at} |-> ren[b]]
                       ELSE ren
        /\ UNCHANGED <<phase, dir, root, val, doc, rs, rl>>

\* one shard = the histories whose first edit has a given index
Publish == /\ phase = "edit" /\ edits # <<>>
           /\ phase' = "published"
           /\ UNCHANGED <<specB, edits, ren, dir, root, val, doc, rs, rl>>

\* a B-sender talks to an A-receiver (forward) or an A-sender to a B-receiver (backward)
SendForward ==
    /\ phase = "published"
    /\ \E n \in RootNames :
         /\ root' = TRef(ToB(n))
         /\ val' \in Vals(specB, root', 2, {})
         /\ doc' = Encode(specB, root', val', {})
         /\ rs' = Dec(SpecA, TRef(n), doc', TRUE, {}, {})
         /\ rl' = Dec(SpecA, TRef(n), doc', FALSE, {}, {})
    /\ dir' = "forward" /\ phase' = "delivered"
    /\ UNCHANGED <<specB, edits, ren>>
SendBackward ==
    /\ phase = "published"
    /\ \E n \in RootNames :
         /\ root' = TRef(n)
         /\ val' \in Vals(SpecA, root', 2, {})
         /\ doc' = Encode(SpecA, root', val', {})
         /\ rs' = Dec(specB, TRef(ToB(n)), doc', TRUE, {}, {})
         /\ rl' = Dec(specB, TRef(ToB(n)), doc', FALSE, {}, {})
    /\ dir' = "backward" /\ phase' = "delivered"
    /\ UNCHANGED <<specB, edits, ren>>

Next == Edit \/ Publish \/ SendForward \/ SendBackward
Spec == Init /\ [][Next]_vars

\* ------------------------------------------------------------- properties
Fwd == phase = "delivered" /\ dir = "forward"
Bwd == phase = "delivered" /\ dir = "backward"
\* old receivers understand new senders
\* (a value is first identified with what its sender's encoding can express: StoneWire!Canon)
Forward == Fwd => rl = Ok(View(root, Canon(specB, val)))
\* a strict (leader) receiver rejects precisely the messages with something unknown
StrictExact == Fwd => rs = (IF Lossy(root, val) THEN Err ELSE Ok(View(root, Canon(specB, val))))
\* new receivers understand old senders
Backward == (Bwd /\ ~ThroughChangedVoid(root, val)) => (rs = Ok(Lift(Canon(SpecA, val))) /\ rl = Ok(Lift(Canon(SpecA, val))))
\* the view of a value A knows entirely is the value itself (up to names)
ViewIdentity == Fwd => (~Lossy(root, val) => Valid(SpecA, TypeToA(root), View(root, val), {}))
BStillValid == (Bwd /\ ~ThroughChangedVoid(root, val)) => Valid(specB, TypeToB(root), Lift(val), {})

\* ------------------------------------------------------------- vectors
EditKey == edits
Vector == [phase |-> phase, edits |-> edits, dir |-> dir, root |-> root, val |-> val, doc |-> doc,
           strict |-> rs, lenient |-> rl,
           unpromised |-> (dir = "backward" /\ ThroughChangedVoid(root, val))]
SchemaVector == [phase |-> "schema", edits |-> edits, specA |-> SpecA, specB |-> specB,
                 ren |-> [b \in DOMAIN ren |-> ren[b]], roots |-> SetToSeq(RootNames)]
Emit == IF ~EmitVectors THEN TRUE
        ELSE CASE phase = "published" -> PrintT(<<"VEC", ToJson(SchemaVector)>>)
               [] phase = "delivered" -> PrintT(<<"VEC", ToJson(Vector)>>)
               [] OTHER -> TRUE
\* sharding: by the position of the first edit in a fixed enumeration
FirstEdits == SetToSeq({ed[1] : ed \in {x \in EditsOf(SpecA) : EditOk(SpecA, x)}})
InShard == edits = <<>> \/ (\E i \in DOMAIN FirstEdits : FirstEdits[i] = edits[1] /\ i % NShards = Shard)
=============================================================================

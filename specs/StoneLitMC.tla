----------------------------- MODULE StoneLitMC -----------------------------
(***************************************************************************)
(* Three rule families of the language reference that judge a written      *)
(* VALUE against a declared TYPE or NAME, each as a declarative predicate  *)
(* with three outcomes (acc / rej / unspec), enumerated by TLC and          *)
(* compared with the verdict of specs_to_ir (C01 both directions, C03: a    *)
(* refusal must be a spec error):                                          *)
(*  Mode "exlit"  : an example assigns expression x to a field of type t    *)
(*                  (lang_ref "Examples": a literal of a primitive type,    *)
(*                  null for nullable, [..] for lists, {..} for maps, the   *)
(*                  label of an example of the target for user types).      *)
(*  Mode "attr"   : a route gives (or omits) attribute a1 whose type the    *)
(*                  schema stone_cfg.Route declares (lang_ref "Route        *)
(*                  attributes").                                           *)
(*  Mode "docref" : a documentation reference :tag:`value` at a site        *)
(*                  (lang_ref "References").                                *)
(*  Mode "annot"  : one or two annotations applied to a struct field, a     *)
(*                  union member or an alias definition (lang_ref           *)
(*                  "Annotations").                                         *)
(***************************************************************************)
EXTENDS StoneRuntime, Json

CONSTANTS Mode, Shard, NShards, EmitVectors
VARIABLES pick
vars == <<pick>>

I32b  == TInt("Int32", 7, 12)
F64b  == TFloat("Float64", 5, 11)
Str13 == TStr(1, 3, "")
StrP  == TStr(Unset, Unset, "p1")
StrU  == TStr(Unset, Unset, "")
StrE  == TStr(Unset, Unset, "p0")        \* String(pattern=""): the documents do not say what an empty pattern means

\* ------------------------------------------------------------- example expressions
XLit(v) == [k |-> "lit", v |-> v]
XRef(label) == [k |-> "ref", label |-> label]
XList(items) == [k |-> "list", items |-> items]
XMap(m) == [k |-> "map", m |-> m]
XNull == [k |-> "null"]
Ex(label, assigns) == [label |-> label, assigns |-> assigns]

XSchema(t) ==
    ("A" :> DAlias("nsb", Str13, "")) @@
    ("L" :> DStruct("nsb", "", <<Fld("l1", I32b)>>, <<>>, FALSE)) @@
    \* K has a member of user-defined type: its tag name is NOT an example label of K (only void tags are)
    ("K" :> DUnion("nsb", "", TRUE, <<Tag("red", TVoid), Tag("green", TVoid), Tag("size", I32b), Tag("entry", TRef("L"))>>)) @@
    ("AL" :> DAlias("nsb", TList(TRef("L"), Unset, Unset), "")) @@
    ("OL" :> DAlias("nsb", TNull(TRef("L")), "")) @@            \* an alias of a nullable struct
    ("Probe" :> DStruct("nsa", "", <<Fld("f1", t)>>, <<>>, FALSE)) @@
    \* aliases that are part of a cycle THROUGH a nullable reference (only in the specs whose probe field uses them):
    \* such a spec is illegal whatever its examples say, and examining the example must not run around the cycle
    (IF t = TRef("CN") THEN ("CN" :> DAlias("nsb", TNull(TRef("CN")), ""))
     ELSE IF t = TRef("CB") THEN ("CA" :> DAlias("nsb", TNull(TRef("CB")), "")) @@ ("CB" :> DAlias("nsb", TRef("CA"), ""))
     ELSE <<>>)
CycTypes == {TRef("CN"), TRef("CB")}
XExamples(x) ==
    ("L" :> <<Ex("default", "l1" :> XLit(VInt(10))), Ex("other", "l1" :> XLit(VInt(7)))>>) @@
    ("Probe" :> <<Ex("default", "f1" :> x)>>) @@ ("K" :> <<>>) @@ ("A" :> <<>>) @@ ("AL" :> <<>>) @@ ("OL" :> <<>>)
    @@ ("CN" :> <<>>) @@ ("CA" :> <<>>) @@ ("CB" :> <<>>)

ETypes == << I32b, F64b, Str13, StrP, TBool, TTs("f1"), TBytes(Unset, Unset),
             TList(I32b, Unset, 2), TList(TList(Str13, Unset, Unset), Unset, Unset), TMap(I32b),
             TMap(TList(Str13, Unset, Unset)), TNull(I32b), TNull(TRef("L")), TRef("L"), TRef("K"), TRef("A"),
             TList(TRef("L"), 1, Unset), TMap(TRef("K")), TNull(TList(TNull(I32b), Unset, Unset)),
             \* an alias of a list of structs; floats bounded on one side only
             TRef("AL"), TFloat("Float64", Unset, 11), TFloat("Float64", 5, Unset), StrE, TList(StrE, Unset, Unset),
             TRef("OL"), TNull(TRef("Probe")),         \* this one lets an example refer to itself
             TRef("CN"), TRef("CB") >>
Int10 == XLit(VInt(10))
StrOk == XLit(CStr(2, TRUE, 0))
XExprs == { Int10, XLit(VInt(13)), XLit(VFloat(9)), XLit(VFloat(12)), StrOk, XLit(CStr(4, TRUE, 0)),
            XLit(CStr(2, FALSE, 0)), XLit(VBool(TRUE)), XNull, XLit(VTs(0)),
            XList(<<>>), XList(<<Int10>>), XList(<<Int10, Int10, Int10>>), XList(<<StrOk>>), XList(<<XList(<<StrOk>>)>>),
            XList(<<XNull>>), XList(<<Int10, StrOk>>),
            XMap("k1" :> Int10), XMap("k1" :> XList(<<StrOk>>)), XMap("k1" :> StrOk), XMap(("k1" :> Int10) @@ ("k2" :> StrOk)),
            XRef("default"), XRef("other"), XRef("nolabel"), XRef("red"), XRef("size"), XRef("entry"), XLit(VFloat(3)),
            XList(<<XRef("default")>>), XList(<<XRef("default"), XRef("nolabel")>>),
            XMap("k1" :> XRef("red")), XMap("k1" :> XRef("zz")) }

\* labels of a type: declared examples, plus one per void tag of a union
XLabels(sc, exs, n) ==
    {exs[n][i].label : i \in DOMAIN exs[n]} \cup
    (IF sc[n].k = "union" THEN {tg.n : tg \in {y \in Range(AllTags(sc, n)) : y.t.k = "void"}} ELSE {})
Worst3(S) == IF "rej" \in S THEN "rej" ELSE IF "unspec" \in S THEN "unspec" ELSE "acc"
RECURSIVE ExFits(_, _, _, _)
ExFits(sc, exs, t, x) ==
    IF t \in CycTypes THEN "rej" ELSE                          \* "aliases cannot form a cycle"
    LET u == Unalias(sc, t) IN
    IF u.k = "nullable" THEN (IF x.k = "null" THEN "acc" ELSE ExFits(sc, exs, u.e, x))
    ELSE IF x.k = "null" THEN "rej"                            \* "null can be used to mark that a NULLABLE type is not present"
    ELSE CASE u.k = "int"   -> IF x.k = "lit" /\ x.v.k = "int" THEN (IF ILo(u) <= x.v.r /\ x.v.r <= IHi(u) THEN "acc" ELSE "rej")
                               ELSE IF x.k = "lit" /\ x.v.k = "bool" THEN "unspec" ELSE "rej"
           [] u.k = "float" -> IF x.k = "lit" /\ x.v.k = "float" THEN (IF FLo(u) <= x.v.r /\ x.v.r <= FHi(u) THEN "acc" ELSE "rej")
                               ELSE IF x.k = "lit" /\ x.v.k \in {"int", "bool"} THEN "unspec" ELSE "rej"
           [] u.k = "str"   -> IF x.k = "lit" /\ x.v.k = "str"
                               THEN (IF u.pat = "p0" THEN "unspec"
                                     ELSE IF LenOk(u, x.v.len) /\ (u.pat = "" \/ x.v.ok) THEN "acc" ELSE "rej")
                               ELSE IF x.k = "lit" /\ x.v.k = "ts" THEN (IF u.pat = "p0" THEN "unspec" ELSE "rej")  \* a 20-character text
                               ELSE "rej"
           [] u.k = "bool"  -> IF x.k = "lit" /\ x.v.k = "bool" THEN "acc" ELSE "rej"
           [] u.k = "ts"    -> IF x.k = "lit" /\ x.v.k = "ts" THEN "acc" ELSE "rej"
           [] u.k = "bytes" -> IF x.k = "lit" /\ x.v.k \in {"str", "ts"} THEN "unspec" ELSE "rej"
           [] u.k = "list"  -> IF x.k # "list" THEN "rej"
                               ELSE IF ~LenOk(u, Len(x.items)) THEN "rej"
                               ELSE Worst3({ExFits(sc, exs, u.e, x.items[i]) : i \in DOMAIN x.items})
           [] u.k = "map"   -> IF x.k # "map" THEN "rej"
                               ELSE Worst3({ExFits(sc, exs, u.v, x.m[key]) : key \in DOMAIN x.m})
           [] u.k = "ref"   -> IF x.k = "ref"
                               THEN (IF u.n = "Probe" /\ x.label = "default" THEN "unspec"     \* the example names itself: no finite value
                                     ELSE IF x.label \in XLabels(sc, exs, u.n) THEN "acc" ELSE "rej")
                               ELSE "rej"
           [] OTHER -> "rej"

\* ------------------------------------------------------------- route attributes
LInt(r) == [k |-> "lint", r |-> r]
LFloat(r) == [k |-> "lfloat", r |-> r]
LStr(n, ok) == [k |-> "lstr", len |-> n, ok |-> ok]
LBool(b) == [k |-> "lbool", b |-> b]
LTag(n) == [k |-> "ltag", n |-> n]
LNull == [k |-> "lnull"]
LTs(ok) == [k |-> "lts", ok |-> ok]
LAbsent == [k |-> "absent"]
ASchema == ("K" :> DUnion("nsb", "", TRUE, <<Tag("red", TVoid), Tag("green", TVoid), Tag("size", I32b)>>)) @@
           ("L" :> DStruct("nsb", "", <<Fld("l1", I32b)>>, <<>>, FALSE)) @@
           ("AV" :> DAlias("nsb", TVoid, ""))
ADecls == << [t |-> StrU, d |-> LAbsent], [t |-> StrU, d |-> LStr(2, TRUE)], [t |-> TNull(StrU), d |-> LAbsent],
             [t |-> Str13, d |-> LAbsent], [t |-> StrP, d |-> LAbsent], [t |-> I32b, d |-> LAbsent], [t |-> I32b, d |-> LInt(10)],
             [t |-> TNull(I32b), d |-> LAbsent], [t |-> F64b, d |-> LAbsent], [t |-> TBool, d |-> LAbsent],
             [t |-> TBool, d |-> LBool(FALSE)], [t |-> TRef("K"), d |-> LAbsent], [t |-> TRef("K"), d |-> LTag("green")],
             [t |-> TNull(TRef("K")), d |-> LAbsent], [t |-> TTs("f1"), d |-> LAbsent],
             \* attribute types the documents do not speak about: containers, structs, a nullable alias of Void
             [t |-> TList(StrU, Unset, Unset), d |-> LAbsent], [t |-> TNull(TMap(StrU)), d |-> LAbsent],
             [t |-> TNull(TRef("L")), d |-> LAbsent], [t |-> TNull(TRef("AV")), d |-> LAbsent],
             [t |-> F64b, d |-> LFloat(9)], [t |-> TFloat("Float64", Unset, 11), d |-> LAbsent],
             [t |-> [k |-> "routeunion"], d |-> LAbsent], [t |-> StrE, d |-> LAbsent], [t |-> StrE, d |-> LStr(2, TRUE)] >>                \* `union Route` instead of `struct Route`
AVals == { LAbsent, LNull, LInt(10), LInt(13), LFloat(9), LFloat(12), LStr(2, TRUE), LStr(4, TRUE), LStr(2, FALSE),
           LBool(TRUE), LTag("red"), LTag("size"), LTag("zz"), LTs(TRUE) }
LitFits(sc, u, l) ==
    CASE u.k = "int"   -> IF l.k = "lint" THEN (IF ILo(u) <= l.r /\ l.r <= IHi(u) THEN "acc" ELSE "rej")
                          ELSE IF l.k = "lbool" THEN "unspec" ELSE "rej"
      [] u.k = "float" -> IF l.k = "lfloat" THEN (IF FLo(u) <= l.r /\ l.r <= FHi(u) THEN "acc" ELSE "rej")
                          ELSE IF l.k \in {"lint", "lbool"} THEN "unspec" ELSE "rej"
      [] u.k = "str"   -> IF l.k = "lstr" THEN (IF u.pat = "p0" THEN "unspec"
                                                ELSE IF LenOk(u, l.len) /\ (u.pat = "" \/ l.ok) THEN "acc" ELSE "rej")
                          ELSE IF l.k = "lts" THEN (IF u.pat = "p0" THEN "unspec"
                                                    ELSE IF u.min = Unset /\ u.max = Unset /\ u.pat = "" THEN "acc" ELSE "rej")
                          ELSE "rej"
      [] u.k = "bool"  -> IF l.k = "lbool" THEN "acc" ELSE "rej"
      [] u.k = "ts"    -> IF l.k = "lts" THEN "acc" ELSE "rej"
      [] u.k = "ref"   -> IF l.k = "ltag" /\ l.n \in TagNames(sc, u.n) /\ TagByName(sc, u.n, l.n).t.k = "void" /\ l.n # "other"
                          THEN "acc" ELSE "rej"
      [] OTHER -> "rej"
AttrFits(sc, decl, l) ==
    IF decl.t.k = "routeunion" THEN "rej" ELSE                   \* the schema is "a struct named Route"
    LET u == Unalias(sc, decl.t)
        nullable == u.k = "nullable"
        inner == IF nullable THEN Unalias(sc, u.e) ELSE u
    IN  CASE l.k = "absent" -> IF nullable \/ decl.d.k # "absent" THEN "acc"
                               ELSE IF inner.k \in {"list", "map"} THEN "unspec" ELSE "rej"  \* a required attribute must be given
          [] l.k = "lnull"  -> IF ~nullable THEN "rej"
                               ELSE IF inner.k \in {"list", "map", "void"} \/ (inner.k = "ref" /\ sc[inner.n].k = "struct")
                                    THEN "unspec" ELSE "acc"
          [] OTHER          -> IF inner.k \in {"list", "map", "void"} \/ (inner.k = "ref" /\ sc[inner.n].k = "struct")
                               THEN "unspec" ELSE LitFits(sc, inner, l)

\* ------------------------------------------------------------- documentation references
\* the environment the reference is written in (namespace nsa, which imports nsb; nsc exists but is not imported):
\*   nsa: struct Sa {f1, f2}, struct Sb extends Sa {g1}, union Ua {t1, t2 Int32}, alias Aa = Sa, route ra (v1), route rb:2
\*   nsb: struct Tb {h1}, route rt (v1)          nsc: struct Tc {k1}
Tags  == {"type", "field", "route", "link", "val", "foo"}
Sites == {"struct", "field", "tag", "route"}
NsQ   == {"", "nsb", "nsc", "nsz"}
Heads == {"Sa", "Sb", "Ua", "Aa", "ra", "rb", "Tb", "rt", "Zz", "f1", "t1", "zz"}
Tails == {"", "f1", "g1", "h1", "t2", "zz"}
Vers  == {"none", "1", "2", "0", "x", "empty"}
NamePayloads ==
    {[kind |-> "name", ns |-> q, head |-> h, tail |-> "", extra |-> FALSE, ver |-> v] : q \in NsQ, h \in Heads, v \in Vers}
    \cup {[kind |-> "name", ns |-> q, head |-> h, tail |-> tl, extra |-> e, ver |-> "none"] :
             q \in NsQ, h \in Heads, tl \in Tails \ {""}, e \in BOOLEAN}
OtherPayloads == {[kind |-> kd, ns |-> "", head |-> "", tail |-> "", extra |-> FALSE, ver |-> "none"] :
                     kd \in {"link_ok", "link_long", "two_words", "lit_null", "lit_true", "lit_int", "lit_float", "empty"}}
Payloads == NamePayloads \cup OtherPayloads

\* what a (namespace qualifier, name) denotes from inside nsa
KindOf(q, h) ==
    CASE q = ""    -> (CASE h \in {"Sa", "Sb"} -> "struct" [] h = "Ua" -> "union" [] h = "Aa" -> "alias"
                         [] h \in {"ra", "rb"} -> "route" [] OTHER -> "none")
      [] q = "nsb" -> (CASE h = "Tb" -> "struct" [] h = "rt" -> "route" [] OTHER -> "none")
      [] OTHER     -> "none"                                    \* nsc is not imported, nsz does not exist
FieldsOfType(q, h) ==
    CASE q = "" /\ h = "Sa" -> {"f1", "f2"} [] q = "" /\ h = "Sb" -> {"f1", "f2", "g1"} [] q = "" /\ h = "Ua" -> {"t1", "t2", "other"}
      [] q = "" /\ h = "Aa" -> {"f1", "f2"} [] q = "nsb" /\ h = "Tb" -> {"h1"} [] OTHER -> {}
RouteVersions(q, h) ==
    CASE q = "" /\ h = "ra" -> {"1"} [] q = "" /\ h = "rb" -> {"2"} [] q = "nsb" /\ h = "rt" -> {"1"} [] OTHER -> {}
\* the type a docstring at this site belongs to ("" for a route's docstring)
ContextFields(site) == CASE site \in {"struct", "field"} -> {"f1", "f2"} [] site = "tag" -> {"t1", "t2", "other"} [] OTHER -> {}

RefFits(site, tag, p) ==
    CASE tag = "foo"  -> "rej"                                   \* "Supported tags are route, type, field, link, and val"
      [] tag = "type" ->
           IF p.kind = "name" /\ p.tail = "" /\ p.ver = "none" /\ KindOf(p.ns, p.head) \in {"struct", "union"} THEN "acc"
           ELSE IF p.kind = "name" /\ p.tail = "" /\ p.ver = "none" /\ KindOf(p.ns, p.head) = "alias" THEN "unspec"
           ELSE "rej"
      [] tag = "field" ->
           IF p.kind # "name" \/ p.ver # "none" \/ p.extra THEN "rej"
           ELSE IF p.tail # "" THEN
                (IF KindOf(p.ns, p.head) \in {"struct", "union"} /\ p.tail \in FieldsOfType(p.ns, p.head) THEN "acc"
                 ELSE IF KindOf(p.ns, p.head) = "alias" /\ p.tail \in FieldsOfType(p.ns, p.head) THEN "unspec"
                 ELSE "rej")
           ELSE IF p.ns = "" THEN (IF p.head \in ContextFields(site) THEN "acc" ELSE "rej")
           ELSE "rej"
      [] tag = "route" ->
           IF p.kind = "name" /\ p.tail = "" /\ KindOf(p.ns, p.head) = "route"
              /\ (IF p.ver = "none" THEN "1" ELSE p.ver) \in RouteVersions(p.ns, p.head) THEN "acc" ELSE "rej"
      [] tag = "link" -> IF p.kind \in {"link_ok", "link_long", "two_words"} THEN "acc" ELSE "rej"   \* "<title...> <uri>"
      [] tag = "val"  -> IF p.kind \in {"lit_null", "lit_true", "lit_int", "lit_float"} THEN "acc" ELSE "unspec"

\* ------------------------------------------------------------- annotations applied to members (lang_ref "Annotations")
\* environment (namespace nsa imports nsb; nsc exists, not imported):
\*   nsa: annotation Om = Omitted("a"), Om2 = Omitted("b"), Dep = Deprecated(), Prev = Preview(), Blot = RedactedBlot(),
\*        Hash = RedactedHash(), annotation_type Note { importance String = "low" }, Cust = Note(), CustKw = Note(importance="x"),
\*        struct Sx, alias ARed = String @Blot, alias APlain = String;   nsb: annotation Fo = Omitted("f");  nsc: annotation Nc = Deprecated()
ASites == {"field", "tag", "alias"}
ATypesOf == {"String", "Int32", "Float64", "Boolean", "Bytes", "ListString", "MapString", "StringN", "Sx", "ARed", "APlain"}
Anns == {"Om", "Om2", "Dep", "Prev", "Blot", "Hash", "Cust", "CustKw", "Zz", "nsb.Fo", "nsc.Nc", "nsz.Nc", "Sx", "nsb.Zz",
         "nsb.Cu"}        \* a custom annotation defined in nsb, whose file comes after the one that uses it
IsRedactor(a) == a \in {"Blot", "Hash"}
Resolves(a) == a \in {"Om", "Om2", "Dep", "Prev", "Blot", "Hash", "Cust", "CustKw", "nsb.Fo", "nsb.Cu"}
AnnFits(site, ty, a1, a2) ==
    LET as == IF a2 = "none" THEN {a1} ELSE {a1, a2} IN
    IF \E a \in as : ~Resolves(a) THEN "rej"                     \* the annotation must exist (in an imported namespace) and be an annotation
    ELSE IF a1 = a2 THEN "unspec"                                \* the same annotation written twice: the documents are silent
    ELSE IF {"Om", "Om2"} \subseteq as \/ {"Om", "nsb.Fo"} \subseteq as \/ {"Om2", "nsb.Fo"} \subseteq as
         THEN "rej"                                               \* "fields can be tagged with at most one caller type"
    ELSE IF \E a \in as : IsRedactor(a) THEN
         \* "only string and numeric typed fields are eligible for redaction"; user types are neither
         (IF ty = "Sx" THEN "rej"
          \* (a field whose type is written as an alias: the documents do not say whether it may carry its own redactor)
          ELSE IF ty \in {"String", "Int32", "Float64", "StringN"} /\ Cardinality({a \in as : IsRedactor(a)}) = 1
                  /\ (site # "alias" \/ ty \in {"String", "Int32", "Float64"}) THEN
               (IF as \ {"Blot", "Hash"} \subseteq {"Cust", "CustKw", "nsb.Cu"} \/ site # "alias" THEN "acc" ELSE "unspec")
          ELSE "unspec")
    ELSE IF site = "alias" THEN
         \* "Aliases ... can be marked at their definition with a redactor tag"; custom annotations work like built-in ones
         (IF as \subseteq {"Cust", "CustKw", "nsb.Cu"} THEN "acc" ELSE "unspec")
    ELSE IF {"Dep", "Prev"} \subseteq as \/ a1 = a2 THEN "unspec"
    ELSE "acc"

\* ------------------------------------------------------------- annotation definitions (lang_ref "Custom annotations")
\* nsa: annotation_type Note { importance String = "low" }, annotation_type Pair { x Int32; y Int32 };
\* nsb (imported): annotation_type NoteB { level Int32 = 1 };  nsc (not imported): annotation_type NoteC { z Int32 = 1 }
\* `annotation X = <ref>(<args>)`
DefRefs == {"Omitted", "Deprecated", "RedactedBlot", "Note", "Pair", "nsa.Note", "nsb.NoteB", "nsc.NoteC", "nsz.Note", "Zz", "Sx",
            "Bad"}          \* annotation_type Bad declares a parameter without a type: no spec with it is legal
DefArgs == {"none", "pos_s", "pos_i", "pos_ii", "pos_ss", "kw_importance", "kw_xy", "kw_x", "kw_zz", "mixed", "pos_iii"}
\* parameters of the custom annotation types: <<name, kind ("s"/"i"), has default>>
ParamsOf(r) == CASE r = "Note" -> << <<"importance", "s", TRUE>> >> [] r = "Pair" -> << <<"x", "i", FALSE>>, <<"y", "i", FALSE>> >>
                 [] r = "nsb.NoteB" -> << <<"level", "i", TRUE>> >> [] OTHER -> <<>>
\* the arguments as a sequence of <<keyword or "", kind>>
ArgSeq(a) == CASE a = "none" -> <<>> [] a = "pos_s" -> << <<"", "s">> >> [] a = "pos_i" -> << <<"", "i">> >>
               [] a = "pos_ii" -> << <<"", "i">>, <<"", "i">> >> [] a = "pos_ss" -> << <<"", "s">>, <<"", "s">> >>
               [] a = "pos_iii" -> << <<"", "i">>, <<"", "i">>, <<"", "i">> >>
               [] a = "kw_importance" -> << <<"importance", "s">> >> [] a = "kw_xy" -> << <<"x", "i">>, <<"y", "i">> >>
               [] a = "kw_x" -> << <<"x", "i">> >> [] a = "kw_zz" -> << <<"zz", "s">> >>
               [] a = "mixed" -> << <<"", "i">>, <<"y", "i">> >>
AnnDefFits(r, a) ==
    LET args == ArgSeq(a)
        ps == ParamsOf(r)
        poss == SelectSeq(args, LAMBDA x : x[1] = "")
        kws == SelectSeq(args, LAMBDA x : x[1] # "")
    IN  IF r \in {"nsc.NoteC", "nsz.Note", "Zz", "Sx", "nsa.Note", "Bad"} THEN "rej"      \* unknown, not imported, not an annotation type,
                                                                              \* or the namespace naming itself
        ELSE IF r \in {"Omitted", "Deprecated", "RedactedBlot"} THEN
             \* built-in kinds: Omitted takes the caller name, Deprecated nothing, RedactedBlot an optional pattern
             (IF r = "Omitted" /\ a = "pos_s" THEN "acc" ELSE IF r = "Deprecated" /\ a = "none" THEN "acc"
              ELSE IF r = "RedactedBlot" /\ a \in {"none", "pos_s"} THEN "acc"
              ELSE IF r = "Omitted" /\ a = "none" THEN "rej" ELSE "unspec")
        ELSE IF poss # <<>> /\ kws # <<>> THEN "rej"                \* "all positional or all keyword arguments, but not a mix"
        ELSE IF poss # <<>> THEN
             (IF Len(poss) > Len(ps) THEN "rej"
              ELSE IF \E i \in DOMAIN poss : poss[i][2] # ps[i][2] THEN "rej"
              ELSE IF \E i \in (Len(poss) + 1)..Len(ps) : ~ps[i][3] THEN "rej" ELSE "acc")
        ELSE (IF \E i \in DOMAIN kws : ~\E j \in DOMAIN ps : ps[j][1] = kws[i][1] /\ ps[j][2] = kws[i][2] THEN "rej"
              ELSE IF \E j \in DOMAIN ps : ~ps[j][3] /\ ~\E i \in DOMAIN kws : kws[i][1] = ps[j][1] THEN "rej" ELSE "acc")

\* ------------------------------------------------------------- a name that is not a type, written where a type is expected
\* nsa imports nsb; names: nsb (a namespace), Dep (an annotation), Note (an annotation type), ra (a route), Aa (alias of String, fine),
\* Zz (undefined); the member may or may not have an example / default
BadTypes == {"nsb", "Dep", "Note", "ra", "Aa", "Zz", "nsb.Tb", "nsb.Fo", "stone_cfg.Route"}
\* route_two / route_four: a route signature of two / four types -- "Route ::= 'route' Identifier ... '(' TypeRef ','
\* TypeRef ',' TypeRef ')'": four are refused; what two mean is not documented (the parser has a rule for it)
TypeSites == {"field", "field_example", "tag", "alias", "route_arg", "list_item", "field_nullable", "route_two", "route_four"}
TypeNameFits(site, n) == IF site = "route_four" THEN "rej"
                         ELSE IF site = "route_two" THEN (IF n \in {"Aa", "nsb.Tb", "stone_cfg.Route"} THEN "unspec" ELSE "rej")
                         ELSE IF n = "stone_cfg.Route" THEN "unspec"        \* the attribute schema used as a data type: not documented
                         ELSE IF n \in {"Aa", "nsb.Tb"} THEN (IF site = "route_arg" /\ n = "Aa" THEN "unspec" ELSE "acc") ELSE "rej"

\* ------------------------------------------------------------- the machine
Init == pick = [k |-> "none"]
PickEx == /\ Mode = "exlit" /\ pick.k = "none"
          \* pn: the name the probe struct (of nsa) is WRITTEN with -- its own, or `L`, the name of the struct of nsb its field
          \* holds: a name is unique within its namespace only, and the two keep their own examples of the same label
          /\ \E i \in DOMAIN ETypes, x \in XExprs :
                \E pn \in (IF ETypes[i] \in {TRef("L"), TNull(TRef("L")), TList(TRef("L"), 1, Unset)} THEN {"Probe", "L"} ELSE {"Probe"}) :
                   pick' = [k |-> "exlit", ti |-> i, x |-> x, pn |-> pn]
PickAttr == /\ Mode = "attr" /\ pick.k = "none"
            \* inh: the attribute is declared by a struct of another namespace that stone_cfg.Route extends (a route carries the
            \* inherited attributes of the schema like its own)
            /\ \E i \in DOMAIN ADecls, l \in AVals :
                  \E inh \in (IF ADecls[i].t.k = "routeunion" THEN {FALSE} ELSE BOOLEAN) :
                     pick' = [k |-> "attr", di |-> i, l |-> l, inh |-> inh]
PickRef == /\ Mode = "docref" /\ pick.k = "none"
           /\ \E s \in Sites, tg \in Tags, p \in Payloads : pick' = [k |-> "docref", site |-> s, tag |-> tg, p |-> p]
PickAnn == /\ Mode = "annot" /\ pick.k = "none"
           /\ \E st \in ASites, ty \in ATypesOf, a1 \in Anns, a2 \in Anns \cup {"none"} :
                  /\ (st = "alias" => ty \in {"String", "Int32", "ListString", "Sx", "APlain", "ARed"})
                  /\ pick' = [k |-> "annot", site |-> st, ty |-> ty, a1 |-> a1, a2 |-> a2]
PickAnnDef == /\ Mode = "anndef" /\ pick.k = "none"
              \* used: whether the namespace that defines the annotation also applies it to a member
              /\ \E r \in DefRefs, a \in DefArgs, u \in BOOLEAN : pick' = [k |-> "anndef", r |-> r, a |-> a, used |-> u]
PickBadType == /\ Mode = "badtype" /\ pick.k = "none"
               /\ \E st \in TypeSites, n \in BadTypes : pick' = [k |-> "badtype", site |-> st, n |-> n]
\* a struct that extends nsa.Base, which enumerates its subtypes and lists nsa.S: "all subtypes must be listed".  where:
\* the namespace of the extending struct, name: its name, listed: whether Base lists it.  A struct of another namespace
\* that has the NAME of a listed subtype is not that subtype.
SubCases == {[where |-> "nsa", name |-> "T", listed |-> TRUE], [where |-> "nsa", name |-> "T", listed |-> FALSE],
             [where |-> "nsb", name |-> "T", listed |-> FALSE], [where |-> "nsb", name |-> "S", listed |-> FALSE]}
SubtypeFits(c) == IF c.listed THEN "acc" ELSE "rej"
PickSubtype == /\ Mode = "badtype" /\ pick.k = "none" /\ \E c \in SubCases : pick' = [k |-> "subtype", c |-> c]
Next == PickEx \/ PickAttr \/ PickRef \/ PickAnn \/ PickAnnDef \/ PickBadType \/ PickSubtype
Spec == Init /\ [][Next]_vars

\* ------------------------------------------------------------- properties
Verdicts == {"acc", "rej", "unspec"}
\* the rules are total: every enumerated case gets a verdict
Total == CASE pick.k = "exlit"  -> ExFits(XSchema(ETypes[pick.ti]), XExamples(pick.x), ETypes[pick.ti], pick.x) \in Verdicts
           [] pick.k = "attr"   -> AttrFits(ASchema, ADecls[pick.di], pick.l) \in Verdicts
           [] pick.k = "docref" -> RefFits(pick.site, pick.tag, pick.p) \in Verdicts
           [] pick.k = "annot"  -> AnnFits(pick.site, pick.ty, pick.a1, pick.a2) \in Verdicts
           [] pick.k = "anndef" -> AnnDefFits(pick.r, pick.a) \in Verdicts
           [] pick.k = "badtype" -> TypeNameFits(pick.site, pick.n) \in Verdicts
           [] pick.k = "subtype" -> SubtypeFits(pick.c) \in Verdicts
           [] OTHER -> TRUE
\* a default the schema itself declares is a value the rule accepts when a route writes it (the schema is consistent)
DeclaredDefaultsFit == \A i \in DOMAIN ADecls : ADecls[i].d.k # "absent" => AttrFits(ASchema, ADecls[i], ADecls[i].d) \in {"acc", "unspec"}
\* null is an example of every nullable type and of no other
NullIffNullable == pick.k = "exlit" /\ pick.x.k = "null" /\ ETypes[pick.ti] \notin CycTypes =>
    ((ExFits(XSchema(ETypes[pick.ti]), XExamples(pick.x), ETypes[pick.ti], pick.x) = "acc")
        <=> (Unalias(XSchema(ETypes[pick.ti]), ETypes[pick.ti]).k = "nullable"))
\* a qualified reference into a namespace that is not imported (or unknown) is never accepted
ForeignNeedsImport == pick.k = "docref" /\ pick.p.kind = "name" /\ pick.p.ns \in {"nsc", "nsz"} /\ pick.tag \in {"type", "field", "route"}
                        => RefFits(pick.site, pick.tag, pick.p) = "rej"

Hash(p) == CASE p.k = "exlit" -> p.ti [] p.k = "attr" -> p.di
             [] p.k = "docref" -> (CASE p.site = "struct" -> 0 [] p.site = "field" -> 1 [] p.site = "tag" -> 2 [] OTHER -> 3)
                                  + (CASE p.tag = "type" -> 0 [] p.tag = "field" -> 4 [] p.tag = "route" -> 8 [] p.tag = "link" -> 12
                                       [] p.tag = "val" -> 16 [] OTHER -> 20)
             [] p.k = "annot" -> (CASE p.site = "field" -> 0 [] p.site = "tag" -> 1 [] OTHER -> 2)
                                 + (IF p.a2 = "none" THEN 0 ELSE 3) + (IF IsRedactor(p.a1) THEN 6 ELSE 0)
             [] OTHER -> 0
InShard == pick.k = "none" \/ Hash(pick) % NShards = Shard
Vector ==
    CASE pick.k = "exlit" ->
           [mode |-> "exlit", schema |-> XSchema(ETypes[pick.ti]), examples |-> XExamples(pick.x), t |-> ETypes[pick.ti], x |-> pick.x,
            pn |-> pick.pn,
            verdict |-> ExFits(XSchema(ETypes[pick.ti]), XExamples(pick.x), ETypes[pick.ti], pick.x)]
      [] pick.k = "attr" ->
           [mode |-> "attr", schema |-> ASchema, decl |-> ADecls[pick.di], l |-> pick.l, inh |-> pick.inh,
            verdict |-> AttrFits(ASchema, ADecls[pick.di], pick.l)]
      [] pick.k = "docref" ->
           [mode |-> "docref", site |-> pick.site, tag |-> pick.tag, p |-> pick.p, verdict |-> RefFits(pick.site, pick.tag, pick.p)]
      [] pick.k = "anndef" -> [mode |-> "anndef", r |-> pick.r, a |-> pick.a, used |-> pick.used, verdict |-> AnnDefFits(pick.r, pick.a)]
      [] pick.k = "badtype" -> [mode |-> "badtype", site |-> pick.site, n |-> pick.n, verdict |-> TypeNameFits(pick.site, pick.n)]
      [] pick.k = "subtype" -> [mode |-> "subtype", c |-> pick.c, verdict |-> SubtypeFits(pick.c)]
      [] pick.k = "annot" ->
           [mode |-> "annot", site |-> pick.site, ty |-> pick.ty, a1 |-> pick.a1, a2 |-> pick.a2,
            verdict |-> AnnFits(pick.site, pick.ty, pick.a1, pick.a2)]
      [] OTHER -> [mode |-> "none"]
Emit == IF EmitVectors /\ pick.k # "none" THEN PrintT(<<"VEC", ToJson(Vector)>>) ELSE TRUE
=============================================================================

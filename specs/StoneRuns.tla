------------------------------ MODULE StoneRuns ------------------------------
(***************************************************************************)
(* C12: code generation is deterministic.                                  *)
(*                                                                         *)
(* A process (with a hash seed) performs a history of runs; each run       *)
(* applies a backend row to a spec set and writes into an output           *)
(* directory.  The specification says the files of a run are a function of *)
(* (backend row, spec set) alone: Generate.  TLC enumerates the histories  *)
(* -- hash seed, what was compiled or generated earlier in the same        *)
(* process, which output directory -- and prints them; the harness         *)
(* executes every history in a real process and logs one digest per run;   *)
(* StoneRunsTrace then checks the log against Deterministic.               *)
(***************************************************************************)
EXTENDS Naturals, Sequences, FiniteSets, TLC, Json

CONSTANTS Rows,            \* number of backend rows (DESIGN Appendix F)
          SpecSets,        \* number of spec sets
          Seeds,           \* set of hash seeds
          Shard, NShards, EmitVectors
VARIABLES seed, hist, phase
vars == <<seed, hist, phase>>

Run(row, spec, dir) == [row |-> row, spec |-> spec, dir |-> dir]
Dirs == {"d1", "d2"}

\* what a history looks like: an optional earlier run (another spec with the same backend, or
\* another backend with the same spec, in the other directory), then the measured run
Init == /\ seed \in Seeds /\ hist = <<>> /\ phase = "start"
Earlier == /\ phase = "start"
           /\ \E r \in 1..Rows, s \in 1..SpecSets, d \in Dirs : hist' = <<Run(r, s, d)>>
           /\ phase' = "warm"
           /\ UNCHANGED seed
Measure == /\ phase \in {"start", "warm"}
           /\ \E r \in 1..Rows, s \in 1..SpecSets, d \in Dirs :
                /\ r % NShards = Shard
                \* after an earlier run: same backend on the other spec set, or another backend on the same spec set
                /\ hist # <<>> => (\/ hist[1].row = r /\ hist[1].spec # s
                                   \/ hist[1].row = (r % Rows) + 1 /\ hist[1].spec = s)
                /\ hist' = Append(hist, Run(r, s, d))
           /\ phase' = "measured"
           /\ UNCHANGED seed
Next == Earlier \/ Measure
Spec == Init /\ [][Next]_vars

\* ------------------------------------------------------------- the property
\* Generate is an uninterpreted function of the input alone; a log of runs is explained by the
\* specification iff some such function exists, i.e. equal inputs always show equal outputs
SameInput(a, b) == a.row = b.row /\ a.spec = b.spec
Deterministic(log) == \A i, j \in DOMAIN log : SameInput(log[i], log[j]) => log[i].digest = log[j].digest
TypeOK == Len(hist) <= 2 /\ phase \in {"start", "warm", "measured"}

Vector == [seed |-> seed, steps |-> hist]
Emit == IF EmitVectors /\ phase = "measured" THEN PrintT(<<"VEC", ToJson(Vector)>>) ELSE TRUE
=============================================================================

------------------------------ MODULE StoneLex ------------------------------
(***************************************************************************)
(* The indentation / parenthesis / comment machine of the Stone lexer      *)
(* (stone/frontend/lexer.py) over abstract physical lines, next to the     *)
(* documented meaning of layout (lang_ref "Comments", "Line                *)
(* Continuations"): comments, blank lines and trailing whitespace do not   *)
(* matter, indentation is in multiples of 4, a continuation line inside    *)
(* parentheses is indented one level.                                      *)
(*                                                                         *)
(* A line is [ind, kind]; kinds:                                           *)
(*   plain  `x y`   open `x (`   close `y )`   oc `x ( y )`   ooc `x ( y ( z )` *)
(*   pc     `x y # c`  (code with trailing comment)                        *)
(*   blank  (empty)    ws (spaces only)    comment (`# c`)                 *)
(* OpLex mirrors the code line by line (one newline event per line, the    *)
(* dent looked up on the NEXT relevant line); DeclLex is the documented     *)
(* meaning on the code lines only.  TLC enumerates every line sequence up  *)
(* to MaxLines and checks LayoutInvariance, Balanced and the crash         *)
(* conditions; every sequence is replayed through the real Lexer and       *)
(* through specs_to_ir (C03).                                              *)
(***************************************************************************)
EXTENDS Naturals, Integers, Sequences, FiniteSets, TLC, Json

CONSTANTS MaxLines, Shard, NShards, EmitVectors
VARIABLES lines
vars == <<lines>>

Inds  == {0, 2, 4, 8}
Kinds == {"plain", "open", "close", "oc", "ooc", "pc", "ws", "comment"}
Alphabet == {[ind |-> i, kind |-> k] : i \in Inds, k \in Kinds} \cup {[ind |-> 0, kind |-> "blank"]}
RECURSIVE SetToSeq(_)
SetToSeq(S) == IF S = {} THEN <<>> ELSE LET x == CHOOSE y \in S : TRUE IN <<x>> \o SetToSeq(S \ {x})
AlphaSeq == SetToSeq(Alphabet)

IsCode(l) == l.kind \in {"plain", "open", "close", "oc", "ooc", "pc"}

\* ------------------------------------------------------------- operational side
\* the next line whose indentation the lexer looks at after the newline of line i: blank
\* lines are swallowed by the \n+ of the newline token
RECURSIVE NextLine(_, _)
NextLine(ls, i) == IF i > Len(ls) THEN 0 ELSE IF ls[i].kind = "blank" THEN NextLine(ls, i + 1) ELSE i
\* _get_next_line_indent_delta: "none" (EOF, whitespace-only or comment line), "bad" (indent
\* not divisible by 4) or the integer delta
Delta(ls, i, cur) ==
    LET j == NextLine(ls, i) IN
    IF j = 0 THEN [k |-> "none"]
    ELSE IF ls[j].kind \in {"ws", "comment"} THEN [k |-> "none"]
    ELSE IF ls[j].ind % 4 # 0 THEN [k |-> "bad", line |-> j]
    ELSE [k |-> "delta", d |-> (ls[j].ind \div 4) - cur]
Rep(n, x) == [i \in 1..n |-> x]
St(cur, depth, skel, errs, crash) == [cur |-> cur, depth |-> depth, skel |-> skel, errs |-> errs, crash |-> crash]
\* the newline event after line i in state s; withNL: does a NEWLINE token come with it
NewlineEvent(ls, i, s, withNL) ==
    LET d == Delta(ls, i + 1, s.cur) IN
    IF s.depth > 0
    THEN \* WSIGNORE: _check_for_indent
         IF d.k = "none" THEN s
         ELSE IF d.k = "bad" THEN [s EXCEPT !.errs = Append(@, [line |-> d.line, e |-> "indent4"])]
         ELSE IF d.d = 1 THEN s
         ELSE [s EXCEPT !.errs = Append(@, [line |-> NextLine(ls, i + 1), e |-> "continuation"])]
    ELSE LET nl == IF withNL THEN <<"NL">> ELSE <<>> IN
         IF d.k = "none" THEN [s EXCEPT !.skel = @ \o nl]
         ELSE IF d.k = "bad" THEN [s EXCEPT !.skel = @ \o nl, !.errs = Append(@, [line |-> d.line, e |-> "indent4"])]
         ELSE [s EXCEPT !.skel = @ \o nl \o (IF d.d > 0 THEN Rep(d.d, "IN") ELSE Rep(0 - d.d, "DE")),
                        !.cur = @ + d.d]
\* the tokens of a code line: oc = `x ( y )`, ooc = `x ( y ( z )` (nested, one level stays open)
LineToks(l) ==
    CASE l.kind \in {"plain", "pc"} -> <<"T">>
      [] l.kind = "open"  -> <<"T", "LP">>
      [] l.kind = "close" -> <<"T", "RP">>
      [] l.kind = "oc"    -> <<"T", "LP", "T", "RP">>
      [] l.kind = "ooc"   -> <<"T", "LP", "T", "LP", "T", "RP">>
RECURSIVE Feed(_, _)
Feed(ts, s) ==
    IF ts = <<>> THEN s
    ELSE LET t == Head(ts) IN
         Feed(Tail(ts),
              CASE t = "T"  -> [s EXCEPT !.skel = Append(@, "T")]
                [] t = "LP" -> [s EXCEPT !.skel = Append(@, "LP"), !.depth = @ + 1]     \* push_state
                [] t = "RP" -> IF s.depth = 0
                               THEN \* nothing to close: an error, never a crash
                                    [s EXCEPT !.skel = Append(@, "RP"), !.errs = Append(@, [line |-> 0, e |-> "unmatched"])]
                               ELSE [s EXCEPT !.skel = Append(@, "RP"), !.depth = @ - 1])  \* pop_state
CodeTokens(l, s) == Feed(LineToks(l), s)
RECURSIVE OpFrom(_, _, _)
OpFrom(ls, i, s) ==
    IF s.crash THEN s
    ELSE IF i > Len(ls) THEN
         \* EOF: a NEWLINE if the last token is none, then one DEDENT per open level
         IF s.cur > 0
         THEN [s EXCEPT !.skel = @ \o (IF s.skel # <<>> /\ s.skel[Len(s.skel)] # "NL" THEN <<"NL">> ELSE <<>>)
                                      \o Rep(s.cur, "DE"), !.cur = 0]
         ELSE s
    ELSE LET l == ls[i] IN
         CASE l.kind = "blank" ->
                \* swallowed by the previous newline; at the very start of the text it is a newline event
                IF i = 1
                THEN LET j == NextLine(ls, 1) IN
                     IF j = 0 THEN NewlineEvent(ls, Len(ls), s, TRUE)
                     ELSE OpFrom(ls, j, NewlineEvent(ls, j - 1, s, TRUE))
                ELSE OpFrom(ls, i + 1, s)
           [] l.kind = "ws" -> OpFrom(ls, i + 1, NewlineEvent(ls, i, s, TRUE))
           [] l.kind = "comment" ->
                \* a full-line comment yields only the dents (the start of the text counts as a line start)
                OpFrom(ls, i + 1, NewlineEvent(ls, i, s, FALSE))
           [] OTHER -> LET s2 == CodeTokens(l, s) IN
                       IF s2.crash THEN s2 ELSE OpFrom(ls, i + 1, NewlineEvent(ls, i, s2, TRUE))
\* Lexer.input: the first line has no newline before it, so its indentation is judged at the start (an empty
\* first line is left to the newline token that follows)
StartEvent(ls) == LET s0 == St(0, 0, <<>>, <<>>, FALSE) IN
                  IF ls = <<>> \/ ls[1].kind = "blank" THEN s0 ELSE NewlineEvent(ls, 0, s0, FALSE)
OpLex(ls) == OpFrom(ls, 1, StartEvent(ls))

\* ------------------------------------------------------------- declarative side
\* layout that must not matter is removed first
CodeOnly(ls) == SelectSeq(ls, IsCode)
Plain(l) == IF l.kind = "pc" THEN [l EXCEPT !.kind = "plain"] ELSE l
RECURSIVE DeclFrom(_, _, _)
DeclFrom(cs, i, s) ==
    IF s.crash THEN s
    ELSE IF i > Len(cs) THEN
         [s EXCEPT !.skel = @ \o (IF s.cur > 0 /\ s.skel # <<>> /\ s.skel[Len(s.skel)] # "NL" THEN <<"NL">> ELSE <<>>)
                              \o Rep(s.cur, "DE"), !.cur = 0]
    ELSE LET l == cs[i]
             \* indentation of this line, judged before its tokens
             s1 == IF s.depth > 0
                   THEN IF l.ind % 4 # 0 THEN [s EXCEPT !.errs = Append(@, [line |-> i, e |-> "indent4"])]
                        ELSE IF l.ind \div 4 = s.cur + 1 THEN s
                        ELSE [s EXCEPT !.errs = Append(@, [line |-> i, e |-> "continuation"])]
                   ELSE IF l.ind % 4 # 0 THEN [s EXCEPT !.errs = Append(@, [line |-> i, e |-> "indent4"])]
                        ELSE LET d == (l.ind \div 4) - s.cur
                             IN  [s EXCEPT !.skel = @ \o (IF d > 0 THEN Rep(d, "IN") ELSE Rep(0 - d, "DE")),
                                           !.cur = @ + d]
             s2 == CodeTokens(Plain(l), s1)
             s3 == IF s2.crash \/ s2.depth > 0 THEN s2 ELSE [s2 EXCEPT !.skel = Append(@, "NL")]
         IN  DeclFrom(cs, i + 1, s3)
DeclLex(ls) == DeclFrom(CodeOnly(ls), 1, St(0, 0, <<>>, <<>>, FALSE))

\* NEWLINE tokens carry no meaning when repeated or leading
RECURSIVE Collapse(_)
Collapse(sk) ==
    IF sk = <<>> THEN <<>>
    ELSE IF Head(sk) = "NL" /\ Tail(sk) # <<>> /\ Head(Tail(sk)) = "NL" THEN Collapse(Tail(sk))
    ELSE <<Head(sk)>> \o Collapse(Tail(sk))
DropLeadingNL(sk) == IF sk # <<>> /\ Head(sk) = "NL" THEN Tail(sk) ELSE sk
\* inside parentheses the lexer emits no NEWLINE; the parser-relevant skeleton ignores NL there:
\* both sides are compared after removing NL between LP and RP
RECURSIVE StripInParens(_, _)
StripInParens(sk, depth) ==
    IF sk = <<>> THEN <<>>
    ELSE LET h == Head(sk) IN
         IF h = "LP" THEN <<h>> \o StripInParens(Tail(sk), depth + 1)
         ELSE IF h = "RP" THEN <<h>> \o StripInParens(Tail(sk), IF depth > 0 THEN depth - 1 ELSE 0)
         ELSE IF h = "NL" /\ depth > 0 THEN StripInParens(Tail(sk), depth)
         ELSE <<h>> \o StripInParens(Tail(sk), depth)
Canon(sk) == DropLeadingNL(Collapse(StripInParens(sk, 0)))

\* ------------------------------------------------------------- the machine: authoring lines
Init == lines = <<>>
AddLine == /\ Len(lines) < MaxLines
           /\ \E l \in Alphabet : lines' = Append(lines, l)
Next == AddLine
Spec == Init /\ [][Next]_vars

\* ------------------------------------------------------------- properties
\* FirstLineDev names the input class of a departure that has been repaired (known_findings.json, C11): the
\* indentation of the first physical line used not to be looked at -- nor that of the first code line when only a
\* comment on line 1 (and blank lines) preceded it.  It is kept in the vectors for the evidence only.
FirstCode == IF \E i \in DOMAIN lines : IsCode(lines[i])
             THEN CHOOSE i \in DOMAIN lines : IsCode(lines[i]) /\ \A j \in 1..(i - 1) : ~IsCode(lines[j])
             ELSE 0
FirstLineDev ==
    /\ FirstCode > 0 /\ lines[FirstCode].ind > 0
    /\ \/ FirstCode = 1
       \/ lines[1].kind = "comment" /\ \A k \in 2..(FirstCode - 1) : lines[k].kind = "blank"
Op   == OpLex(lines)
Decl == DeclLex(lines)
\* no layout makes the lexer give up: every input ends in tokens and recorded errors
NoCrash == ~Op.crash /\ ~Decl.crash
\* comments, blank lines, whitespace-only lines and trailing comments do not change the tokens,
\* nor whether the layout is in error
LayoutInvariance ==
    ~Op.crash =>
        /\ (Op.errs = <<>>) = (Decl.errs = <<>>)
        /\ (Op.errs = <<>> => Canon(Op.skel) = Canon(Decl.skel))
\* at the end of the text every INDENT has its DEDENT
Count(sk, x) == Cardinality({i \in DOMAIN sk : sk[i] = x})
Balanced == (~Op.crash /\ Op.errs = <<>>) => (Count(Op.skel, "IN") = Count(Op.skel, "DE") /\ Op.cur = 0)

Index(l) == CHOOSE i \in DOMAIN AlphaSeq : AlphaSeq[i] = l
InShard == lines = <<>> \/ Index(lines[1]) % NShards = Shard
Vector == [lines |-> lines, skel |-> Op.skel, errs |-> Op.errs, crash |-> Op.crash, firstdev |-> FirstLineDev,
           decl_ok |-> (Decl.errs = <<>> /\ ~Decl.crash)]
Emit == IF EmitVectors /\ lines # <<>> THEN PrintT(<<"VEC", ToJson(Vector)>>) ELSE TRUE
=============================================================================

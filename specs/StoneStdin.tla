----------------------------- MODULE StoneStdin -----------------------------
(***************************************************************************)
(* Delivery of specs through standard input (stone/cli.py, stdin branch;   *)
(* C11).  The command line documents: "Multiple namespaces can be provided *)
(* over stdin by concatenating multiple specs together."  So feeding the   *)
(* concatenation of the files must mean the same as passing the files.     *)
(*                                                                         *)
(* A text is a sequence of abstract lines.  Kinds:                         *)
(*   hdr    `namespace nsK`            (column 0, starts a spec)           *)
(*   plain  a definition without the word "namespace"                      *)
(*   dword  a definition whose indented doc string contains the word       *)
(*   iword  a definition with a field called namespace_id                  *)
(*   cword  a column-0 comment containing the word (`# namespace x ...`)   *)
(*   c      a comment without the word          blank  an empty line       *)
(* Assumption (stated, not checked): a line that starts with the keyword   *)
(* `namespace` is a namespace declaration (the continuation line of a      *)
(* multi-line string could start with the word; such texts are outside).   *)
(*                                                                         *)
(* OpSplit is the splitting the code performs on the concatenated text;    *)
(* Meaning removes what carries no meaning (comments, blank lines).  TLC   *)
(* enumerates every sequence of files and checks SplitRestores; every      *)
(* state is replayed through stone.cli.main with the text on stdin and     *)
(* with the files as arguments (harness/stdincheck.py).                    *)
(***************************************************************************)
EXTENDS Naturals, Sequences, FiniteSets, TLC, Json

CONSTANTS MaxFiles, MaxBody, Shard, NShards, EmitVectors
VARIABLES files, phase
vars == <<files, phase>>

BodyKinds == {"plain", "dword", "iword", "cword", "c"}
PreKinds  == {"none", "c", "cword", "blank"}
NsIds     == {1, 2}

\* a file: optional preamble line, header of namespace ns, body lines
File(pre, ns, body) == [pre |-> pre, ns |-> ns, body |-> body]
Lines(f) == (IF f.pre = "none" THEN <<>> ELSE <<[k |-> f.pre, ns |-> 0]>>) \o <<[k |-> "hdr", ns |-> f.ns]>>
            \o [i \in DOMAIN f.body |-> [k |-> f.body[i], ns |-> 0]]
RECURSIVE Concat(_)
Concat(fs) == IF fs = <<>> THEN <<>> ELSE Lines(Head(fs)) \o Concat(Tail(fs))

IsCode(l) == l.k \in {"hdr", "plain", "dword", "iword"}
Meaning(part) == SelectSeq(part, IsCode)

\* ------------------------------------------------------------- the splitting
\* a new part begins at every line that starts with the keyword; what precedes the first one joins it
RECURSIVE SplitAt(_, _, _)
SplitAt(text, cur, acc) ==
    IF text = <<>> THEN (IF cur = <<>> THEN acc ELSE Append(acc, cur))
    ELSE LET l == Head(text) IN
         IF l.k = "hdr" /\ \E i \in DOMAIN cur : cur[i].k = "hdr"
         THEN SplitAt(Tail(text), <<l>>, Append(acc, cur))
         ELSE SplitAt(Tail(text), Append(cur, l), acc)
OpSplit(text) == SplitAt(text, <<>>, <<>>)

\* the behaviour before the repair recorded in known_findings.json (C11): a part began at every
\* OCCURRENCE of the word, so docs, comments and names containing it tore a spec apart
HasWord(l) == l.k \in {"hdr", "dword", "iword", "cword"}
OldSplitCount(text) == LET n == Cardinality({i \in DOMAIN text : HasWord(text[i])}) IN IF n = 0 THEN 1 ELSE n

\* ------------------------------------------------------------- the machine: authoring files
Init == files = <<>> /\ phase = "writing"
AddFile == /\ phase = "writing" /\ Len(files) < MaxFiles
           /\ \E pre \in PreKinds, ns \in NsIds : files' = Append(files, File(pre, ns, <<>>))
           /\ UNCHANGED phase
AddLine == /\ phase = "writing" /\ files # <<>> /\ Len(files[Len(files)].body) < MaxBody
           /\ \E k \in BodyKinds : files' = [files EXCEPT ![Len(files)].body = Append(@, k)]
           /\ UNCHANGED phase
Deliver == /\ phase = "writing" /\ files # <<>> /\ phase' = "delivered" /\ UNCHANGED files
Next == AddFile \/ AddLine \/ Deliver
Spec == Init /\ [][Next]_vars

\* ------------------------------------------------------------- properties
Parts == OpSplit(Concat(files))
\* concatenating and splitting gives back the files, up to comments and blank lines
SplitRestores == phase = "delivered" =>
    /\ Len(Parts) = Len(files)
    /\ \A i \in DOMAIN files : Meaning(Parts[i]) = Meaning(Lines(files[i]))
\* every part holds exactly one namespace declaration, and it is its first meaningful line
OneHeaderPerPart == phase = "delivered" =>
    \A i \in DOMAIN Parts : /\ Cardinality({j \in DOMAIN Parts[i] : Parts[i][j].k = "hdr"}) = 1
                            /\ Meaning(Parts[i])[1].k = "hdr"
\* no meaningful line is lost or duplicated
NothingLost == phase = "delivered" =>
    LET RECURSIVE Join(_)
        Join(ps) == IF ps = <<>> THEN <<>> ELSE Head(ps) \o Join(Tail(ps))
    IN  Join(Parts) = Concat(files)

InShard == files = <<>> \/ (files[1].ns + (CASE files[1].pre = "none" -> 0 [] files[1].pre = "c" -> 2
                                             [] files[1].pre = "cword" -> 4 [] OTHER -> 6)) % NShards = Shard
Vector == [files |-> files, nparts |-> Len(Parts), old_nparts |-> OldSplitCount(Concat(files)),
           namespaces |-> {files[i].ns : i \in DOMAIN files}]
Emit == IF EmitVectors /\ phase = "delivered" THEN PrintT(<<"VEC", ToJson(Vector)>>) ELSE TRUE
=============================================================================

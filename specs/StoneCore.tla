---------------------------- MODULE StoneCore ----------------------------
(***************************************************************************)
(* Shared abstract vocabulary for every Stone specification module.        *)
(*                                                                         *)
(* A *schema* `sc` is a function from user-type names (strings) to         *)
(* definitions.  Every value in every module is a record whose first field *)
(* `k` names its kind, so that TLC never has to compare a string with an   *)
(* integer.  Numbers are *ranks* in an anchor table (order-isomorphic to   *)
(* the real 64-bit values, see DESIGN.md 2.1); names are atoms.            *)
(***************************************************************************)
EXTENDS Naturals, Integers, Sequences, FiniteSets, TLC

Unset == -1                       \* "argument not given"

\* ------------------------------------------------------------------ types
TInt(p, lo, hi)      == [k |-> "int",   p |-> p, lo |-> lo, hi |-> hi]
TFloat(p, lo, hi)    == [k |-> "float", p |-> p, lo |-> lo, hi |-> hi]
TStr(mn, mx, pat)    == [k |-> "str",   min |-> mn, max |-> mx, pat |-> pat]
TBytes(mn, mx)       == [k |-> "bytes", min |-> mn, max |-> mx]
TBool                == [k |-> "bool"]
TTs(fmt)             == [k |-> "ts", fmt |-> fmt]
TVoid                == [k |-> "void"]
TList(e, mn, mx)     == [k |-> "list", e |-> e, min |-> mn, max |-> mx]
TMap(v)              == [k |-> "map", v |-> v]
TNull(e)             == [k |-> "nullable", e |-> e]
TRef(n)              == [k |-> "ref", n |-> n]

\* ------------------------------------------------------------ definitions
NoDefault            == [k |-> "nodefault"]
Field(n, t, d, omit, red) == [n |-> n, t |-> t, d |-> d, omit |-> omit, red |-> red]
Fld(n, t)            == Field(n, t, NoDefault, "", "")
FldD(n, t, d)        == Field(n, t, d, "", "")
Tag(n, t)            == [n |-> n, t |-> t, omit |-> "", red |-> ""]
TagO(n, t, c)        == [n |-> n, t |-> t, omit |-> c, red |-> ""]
TagR(n, t, r)        == [n |-> n, t |-> t, omit |-> "", red |-> r]
Sub(tag, s)          == [tag |-> tag, sub |-> s]
DStruct(ns, parent, fields, subs, catchall) ==
    [k |-> "struct", ns |-> ns, parent |-> parent, fields |-> fields,
     subs |-> subs, catchall |-> catchall]
DUnion(ns, parent, closed, tags) ==
    [k |-> "union", ns |-> ns, parent |-> parent, closed |-> closed, tags |-> tags]
DAlias(ns, t, red)   == [k |-> "alias", ns |-> ns, t |-> t, red |-> red]

\* ------------------------------------------------------------ sequences
Range(s)    == {s[i] : i \in DOMAIN s}
RECURSIVE FlattenSeq(_)
FlattenSeq(ss) == IF ss = <<>> THEN <<>> ELSE Head(ss) \o FlattenSeq(Tail(ss))
SeqNames(fs) == {fs[i].n : i \in DOMAIN fs}
RECURSIVE SetToSeq(_)
SetToSeq(S) == IF S = {} THEN <<>> ELSE LET x == CHOOSE y \in S : TRUE IN <<x>> \o SetToSeq(S \ {x})

\* ----------------------------------------------------- type resolution
\* lang_ref "Alias": an alias stands for its target, which may be another
\* alias, a user type, or a nullable type.
RECURSIVE Unalias(_, _)
Unalias(sc, t) ==
    IF t.k = "ref" /\ sc[t.n].k = "alias" THEN Unalias(sc, sc[t.n].t) ELSE t

IsNullable(sc, t)  == Unalias(sc, t).k = "nullable"
\* the type with aliases and one level of nullability stripped
Under(sc, t) == LET u == Unalias(sc, t) IN IF u.k = "nullable" THEN Unalias(sc, u.e) ELSE u

IsStructRef(sc, t) == t.k = "ref" /\ sc[t.n].k = "struct"
IsUnionRef(sc, t)  == t.k = "ref" /\ sc[t.n].k = "union"
HasSubs(sc, n)     == sc[n].k = "struct" /\ sc[n].subs # <<>>
\* "ordinary struct" in the words of json_serializer.rst
IsPlainStruct(sc, t) == IsStructRef(sc, t) /\ ~HasSubs(sc, t.n)
IsTree(sc, t)        == IsStructRef(sc, t) /\ HasSubs(sc, t.n)

\* ------------------------------------------------------- inheritance
RECURSIVE Chain(_, _)
Chain(sc, n) == IF sc[n].parent = "" THEN <<n>> ELSE Chain(sc, sc[n].parent) \o <<n>>

IsOptionalField(sc, f) == IsNullable(sc, f.t) \/ f.d.k # "nodefault"
IsRequiredField(sc, f) == ~IsOptionalField(sc, f)

\* lang_ref "Inheritance": the sub type inherits all fields of the parent.
\* Order (api description): inherited first.
FieldsInherited(sc, n) ==
    LET ch == Chain(sc, n) IN FlattenSeq([i \in 1..Len(ch) |-> sc[ch[i]].fields])
\* constructor / all_fields order: required before optional, ancestors first
AllFields(sc, n) ==
    LET fs == FieldsInherited(sc, n)
    IN  SelectSeq(fs, LAMBDA f : IsRequiredField(sc, f)) \o
        SelectSeq(fs, LAMBDA f : IsOptionalField(sc, f))
\* fields a caller holding permissions `perms` can see (lang_ref "Omission")
Visible(fs, perms) == SelectSeq(fs, LAMBDA f : f.omit = "" \/ f.omit \in perms)
FieldByName(fs, n) == LET i == CHOOSE j \in DOMAIN fs : fs[j].n = n IN fs[i]

\* union tags: parent tags are inherited (lang_ref "union inheritance")
AllTagsDeclared(sc, n) ==
    LET ch == Chain(sc, n) IN FlattenSeq([i \in 1..Len(ch) |-> sc[ch[i]].tags])
\* lang_ref "Closed Unions": an open union exposes the void catch-all `other`
IsOpenUnion(sc, n) == \E i \in DOMAIN Chain(sc, n) : ~sc[Chain(sc, n)[i]].closed
AllTags(sc, n) ==
    AllTagsDeclared(sc, n) \o
      (IF IsOpenUnion(sc, n) THEN <<Tag("other", TVoid)>> ELSE <<>>)
TagNames(sc, n)     == SeqNames(AllTags(sc, n))
TagByName(sc, n, t) == FieldByName(AllTags(sc, n), t)

\* enumerated subtypes (one level, see DESIGN 3.5)
SubTags(sc, n)      == {sc[n].subs[i].tag : i \in DOMAIN sc[n].subs}
SubOfTag(sc, n, tg) == LET i == CHOOSE j \in DOMAIN sc[n].subs : sc[n].subs[j].tag = tg
                       IN sc[n].subs[i].sub
TagOfSub(sc, n, s)  == LET i == CHOOSE j \in DOMAIN sc[n].subs : sc[n].subs[j].sub = s
                       IN sc[n].subs[i].tag
SubNames(sc, n)     == {sc[n].subs[i].sub : i \in DOMAIN sc[n].subs}

\* struct classes acceptable where struct n is expected (subclasses allowed)
RECURSIVE IsSubclass(_, _, _)
IsSubclass(sc, c, n) ==
    c = n \/ (sc[c].parent # "" /\ IsSubclass(sc, sc[c].parent, n))

=============================================================================

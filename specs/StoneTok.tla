------------------------------ MODULE StoneTok ------------------------------
(***************************************************************************)
(* C03: the input space of "any text".  Two generators, both explored      *)
(* exhaustively by TLC and printed for replay through specs_to_ir and the  *)
(* command line:                                                           *)
(*  Mode = "strings": every string over the token-class alphabet up to     *)
(*                    MaxLen, placed after a namespace header;             *)
(*  Mode = "edits":   valid seed specs (token sequences with NL / IN / DE  *)
(*                    layout tokens) subjected to 1..MaxEdits token edits: *)
(*                    delete, duplicate, swap, replace, insert, truncate   *)
(*                    (an edit of IN/DE is an indentation shift).          *)
(* The specification has a single outcome type for the frontend: an API    *)
(* description or a spec error; there is no state in which a text leads    *)
(* anywhere else, which is what the replay checks on the implementation.   *)
(***************************************************************************)
EXTENDS Naturals, Sequences, FiniteSets, TLC, Json

CONSTANTS Mode, MaxLen, MaxEdits, Shard, NShards, EmitVectors,
          Stride, Phase       \* edits explored: those with (position * 41 + pool index) % Stride = Phase (Stride 1: all)
VARIABLES seed, toks, nedits
vars == <<seed, toks, nedits>>

Classes == <<"x", "struct", "union", "route", "alias", "(", ")", "=", "?", "NL", "IN", "DE", "\"s\"", "1", ".", ",">>
Pool == <<"x", "struct", "union_closed", "route", "alias", "import", "namespace", "extends", "patch", "annotation",
          "attrs", "example", "doc", "error", "deprecated", "by", "(", ")", "=", "?", ".", ",", ":", "[", "]", "{", "}", "@", "*",
          "NL", "IN", "DE", "\"s\"", "1", "-1", "1.5", "true", "null", "Void", "List", "String", "$", "\"unterminated">>

\* valid specs as token sequences
Seeds == <<
  <<"namespace", "nsa", "NL", "struct", "S", "NL", "IN", "\"doc\"", "NL", "f", "Int32", "=", "1", "NL", "g", "List", "(", "String",
    ",", "max_items", "=", "2", ")", "?", "NL", "example", "default", "NL", "IN", "f", "=", "2", "NL", "g", "=", "null", "NL",
    "DE", "example", "other", "NL", "IN", "\"doc\"", "NL", "g", "=", "[", "\"a\"", ",", "\"b\"", "]", "NL", "DE",
    "DE", "union", "U", "NL", "IN", "a", "NL", "b", "S", "NL", "example", "default", "NL", "IN", "a", "=", "null", "NL", "DE",
    "example", "second", "NL", "IN", "b", "=", "default", "NL", "DE", "DE">>,
  <<"namespace", "nsa", "NL", "import", "nsb", "NL", "union", "U", "extends", "nsb", ".", "V", "NL", "IN", "a", "NL", "b", "S", "NL",
    "IN", "\"doc\"", "NL", "DE", "DE", "struct", "S", "NL", "IN", "union", "NL", "IN", "t", "T", "NL", "DE", "k", "Int32", "NL",
    "DE", "struct", "T", "extends", "S", "NL", "IN", "m", "Map", "(", "String", ",", "Int32", ")", "NL", "DE">>,
  <<"namespace", "nsa", "NL", "route", "r", ":", "2", "(", "Void", ",", "Void", ",", "Void", ")", "deprecated", "by", "q", "NL", "IN",
    "\"doc\"", "NL", "attrs", "NL", "IN", "k", "=", "\"v\"", "NL", "DE", "DE", "route", "q", "(", "Void", ",", "Void", ",", "Void",
    ")", "NL", "alias", "A", "=", "String", "(", "min_length", "=", "1", ")", "NL", "annotation", "R", "=", "RedactedBlot", "(", ")",
    "NL">>,
  <<"namespace", "nsa", "NL", "patch", "struct", "S", "NL", "IN", "p", "Int32", "?", "NL", "IN", "@", "D", "NL", "DE", "DE",
    "annotation", "D", "=", "Deprecated", "(", ")", "NL", "struct", "S", "NL", "IN", "f", "Timestamp", "(", "\"%Y\"", ")", "NL",
    "example", "e", "NL", "IN", "f", "=", "\"2015\"", "NL", "DE", "DE">> >>

Init == /\ nedits = 0
        /\ IF Mode = "strings" THEN seed = 0 /\ toks = <<>>
           ELSE seed \in {i \in DOMAIN Seeds : TRUE} /\ toks = Seeds[seed]

Append1 == /\ Mode = "strings" /\ Len(toks) < MaxLen
           /\ \E i \in DOMAIN Classes : toks' = Append(toks, Classes[i])
           /\ UNCHANGED <<seed, nedits>>

RemoveAt(s, i) == SubSeq(s, 1, i - 1) \o SubSeq(s, i + 1, Len(s))
InsertAt(s, i, x) == SubSeq(s, 1, i - 1) \o <<x>> \o SubSeq(s, i, Len(s))
\* with Stride > 1 only a slice of the edits is explored at every step (a different slice for every Phase): this keeps
\* two- and three-edit mutants enumerable; Stride = 1 is the full set
Sel(i, c) == (i * 41 + c) % Stride = Phase % Stride
Edit == /\ Mode = "edits" /\ nedits < MaxEdits
        /\ \E i \in {j \in DOMAIN toks : j % NShards = Shard \/ nedits > 0} :
             \/ (Sel(i, 0) /\ toks' = RemoveAt(toks, i))
             \/ (Sel(i, 1) /\ toks' = InsertAt(toks, i, toks[i]))
             \/ (Sel(i, 2) /\ i < Len(toks) /\ toks' = [toks EXCEPT ![i] = toks[i + 1], ![i + 1] = toks[i]])
             \/ \E c \in DOMAIN Pool : Sel(i, c + 3) /\ toks' = [toks EXCEPT ![i] = Pool[c]]
             \/ \E c \in DOMAIN Pool : Sel(i, c + 20) /\ toks' = InsertAt(toks, i, Pool[c])
             \/ (Sel(i, 3) /\ toks' = SubSeq(toks, 1, i))
        /\ nedits' = nedits + 1
        /\ UNCHANGED seed

Next == Append1 \/ Edit
Spec == Init /\ [][Next]_vars

InShard == Mode = "edits" \/ toks = <<>> \/
           (\E i \in DOMAIN Classes : Classes[i] = toks[1] /\ i % NShards = Shard)
\* the outcome space of the frontend on any text (the property replayed on the implementation)
Outcomes == {"api", "spec_error"}
TypeOK == nedits \in 0..MaxEdits /\ Len(toks) <= 120
Emit == IF EmitVectors /\ (nedits > 0 \/ (Mode = "strings" /\ toks # <<>>))
        THEN PrintT(<<"VEC", ToJson([mode |-> Mode, seed |-> seed, toks |-> toks, nedits |-> nedits])>>) ELSE TRUE
=============================================================================

------------------------------ MODULE StoneSem ------------------------------
(***************************************************************************)
(* The semantic rules of the Stone language (docs/lang_ref.rst) over an    *)
(* abstract model of spec files, and the API description they denote.      *)
(*                                                                         *)
(*   model  == sequence of files; file == [ns, defs: sequence of defs]      *)
(*   Violations(m)  the set of language rules m breaks (Appendix A ids)     *)
(*   WellFormed(m)  == Violations(m) = {}                                   *)
(*   Denote(m)      the API description of a well-formed m                  *)
(*   OpCycle(m)     the depth-first, in-progress-set resolution of parents  *)
(*                  and aliases in declaration order (operational side)     *)
(*                                                                         *)
(* WellFormed and Denote are functions of the SET of definitions of each   *)
(* namespace (plus the documented order-carrying parts: fields, tags);     *)
(* the machine StoneSemMC authors the same definitions in every order and  *)
(* every split into files.                                                 *)
(***************************************************************************)
EXTENDS Naturals, Sequences, FiniteSets, TLC

\* ------------------------------------------------------------- syntax
NoRef == [k |-> "noref"]
\* reference to a named thing, possibly ns-qualified, possibly nullable, possibly with
\* one positional type argument (List(T))
Ref(ns, n, nullable, arg) == [k |-> "tref", ns |-> ns, n |-> n, nullable |-> nullable, arg |-> arg]
R(n)        == Ref("", n, FALSE, NoRef)
RN(n)       == Ref("", n, TRUE, NoRef)
RQ(ns, n)   == Ref(ns, n, FALSE, NoRef)
RList(t)    == Ref("", "List", FALSE, t)
VoidTag     == [k |-> "voidtag"]            \* a union member written without a type

DImport(t)  == [k |-> "import", target |-> t]
DField(n, t) == [n |-> n, t |-> t, dflt |-> FALSE]
DFieldD(n, t) == [n |-> n, t |-> t, dflt |-> TRUE]          \* with a (valid) literal default
DStructX(n, ext, fields, hassubs, subs, catchall, examples) ==
    [k |-> "struct", n |-> n, ext |-> ext, fields |-> fields, hassubs |-> hassubs, subs |-> subs,
     catchall |-> catchall, examples |-> examples]
DStructS(n, ext, fields, hassubs, subs, catchall) == DStructX(n, ext, fields, hassubs, subs, catchall, <<>>)
\* an example: a label and `field = literal` lines; literal kinds "int", "str", "null"
Ex(label, assigns) == [label |-> label, assigns |-> assigns]
As(n, lit) == [n |-> n, lit |-> lit]
DStruct0(n, ext, fields) == DStructS(n, ext, fields, FALSE, <<>>, FALSE)
DUnionS(n, closed, ext, tags) == [k |-> "union", n |-> n, closed |-> closed, ext |-> ext, tags |-> tags]
DAliasS(n, t) == [k |-> "alias", n |-> n, t |-> t]
DRoute(n, ver, arg, res, err, dep) ==
    [k |-> "route", n |-> n, ver |-> ver, arg |-> arg, res |-> res, err |-> err, dep |-> dep]
\* patch struct/union n: additional fields (struct) or tags (union) for a type defined elsewhere in the namespace
PatchS(n, fields) == [k |-> "patch", pk |-> "struct", n |-> n, closed |-> FALSE, fields |-> fields]
PatchU(n, closed, tags) == [k |-> "patch", pk |-> "union", n |-> n, closed |-> closed, fields |-> tags]
NoDep == [k |-> "nodep"]
DepPlain == [k |-> "deprecated"]
DepBy(n, ver) == [k |-> "by", n |-> n, ver |-> ver]

Builtins == {"Int32", "String", "Boolean", "Void", "List"}
Range(s) == {s[i] : i \in DOMAIN s}
RECURSIVE SetToSeq(_)
SetToSeq(S) == IF S = {} THEN <<>> ELSE LET x == CHOOSE y \in S : TRUE IN <<x>> \o SetToSeq(S \ {x})
RECURSIVE Flat(_)
Flat(ss) == IF ss = <<>> THEN <<>> ELSE Head(ss) \o Flat(Tail(ss))

\* canonical names: lower case, underscores removed (code-stated rule N3).  The pool of
\* identifiers is symbolic; the pairs that collide are listed.
Canon(n) == CASE n = "s_a" -> "sa" [] n = "Sa" -> "sa" [] n = "SA" -> "sa" [] n = "nsa" -> "nsa"
              [] n = "Nsa" -> "nsa" [] OTHER -> n

\* ------------------------------------------------------------- environment
Namespaces(m) == {m[i].ns : i \in DOMAIN m}
FilesOf(m, ns) == {i \in DOMAIN m : m[i].ns = ns}
\* definitions of a namespace in file order (order matters only for Denote's doc/field order)
RawDefsOf(m, ns) == Flat([i \in DOMAIN m |-> IF m[i].ns = ns THEN m[i].defs ELSE <<>>])
\* lang_ref "Patch": the definition of a struct or union may be split over files; a patch adds members to a type of
\* the same kind (and, for unions, the same openness) defined elsewhere in the namespace.  The merged definition is
\* what every other rule sees.  Members of different patches follow the type's own members; their mutual order is
\* file order (part of the documented "fields keep declaration order"), so here they are put in an order that depends
\* only on the SET of patches and the observation side compares modulo that order (patch_groups of Denote).
PatchesFor(m, ns, d) ==
    SelectSeq(RawDefsOf(m, ns), LAMBDA p : p.k = "patch" /\ p.n = d.n /\ p.pk = d.k /\ (d.k = "union" => p.closed = d.closed))
CanonPatches(m, ns, d) == SetToSeq(Range(PatchesFor(m, ns, d)))
MergeDef(m, ns, d) ==
    IF d.k = "struct" THEN [d EXCEPT !.fields = @ \o Flat([i \in DOMAIN CanonPatches(m, ns, d) |-> CanonPatches(m, ns, d)[i].fields])]
    ELSE IF d.k = "union" THEN [d EXCEPT !.tags = @ \o Flat([i \in DOMAIN CanonPatches(m, ns, d) |-> CanonPatches(m, ns, d)[i].fields])]
    ELSE d
DefsOf(m, ns) == [i \in DOMAIN RawDefsOf(m, ns) |-> MergeDef(m, ns, RawDefsOf(m, ns)[i])]
Named(m, ns) == SelectSeq(DefsOf(m, ns), LAMBDA d : d.k \in {"struct", "union", "alias", "route"})
TypeDefs(m, ns) == SelectSeq(DefsOf(m, ns), LAMBDA d : d.k \in {"struct", "union"})
Imports(m, ns) == {d.target : d \in {x \in Range(DefsOf(m, ns)) : x.k = "import"}}
Has(m, ns, n) == \E d \in Range(Named(m, ns)) : d.n = n
\* the definition of name n in ns.  When a name is (illegally, N1) defined several times the
\* choice must not depend on the order of the definitions: types before aliases before routes.
Prio(k) == CASE k \in {"struct", "union"} -> 1 [] k = "alias" -> 2 [] OTHER -> 3
Lookup(m, ns, n) ==
    LET c == {d \in Range(Named(m, ns)) : d.n = n}
        best == {d \in c : \A e \in c : Prio(d.k) <= Prio(e.k)}
    IN  CHOOSE d \in best : TRUE
LookupT(m, ns, n) == CHOOSE d \in Range(TypeDefs(m, ns)) : d.n = n
KindOf(m, ns, n) == IF n \in Builtins THEN "builtin" ELSE IF Has(m, ns, n) THEN Lookup(m, ns, n).k ELSE "undefined"

\* where a reference written in namespace `cur` points: <<ns, name>>
TargetNs(cur, r) == IF r.ns = "" THEN cur ELSE r.ns

\* ------------------------------------------------------------- reference rules
\* rule ids of a single type reference r written in namespace cur
RECURSIVE RefViolations(_, _, _)
\* alias chain unwrapping for R5 (nullable of nullable through aliases); bounded by the
\* number of aliases, cycles are reported by A1
RECURSIVE ChainNullable(_, _, _, _)
ChainNullable(m, ns, r, fuel) ==
    IF fuel = 0 \/ r.k # "tref" THEN FALSE
    ELSE IF r.nullable THEN TRUE
    ELSE LET tns == TargetNs(ns, r)
         IN  IF r.n \notin Builtins /\ tns \in Namespaces(m) /\ Has(m, tns, r.n) /\ Lookup(m, tns, r.n).k = "alias"
             THEN ChainNullable(m, tns, Lookup(m, tns, r.n).t, fuel - 1)
             ELSE FALSE
RefViolations(m, cur, r) ==
    IF r.k # "tref" THEN {} ELSE
    LET tns == TargetNs(cur, r)
        nsProblem ==
            IF r.ns = "" THEN {}
            ELSE IF r.ns \in Imports(m, cur) /\ r.ns \in Namespaces(m) THEN {}
            ELSE IF Has(m, cur, r.ns) THEN {"I5"}          \* `x.Y` where x is not a namespace
            ELSE {"I4"}                                    \* namespace not imported
    IN  IF nsProblem # {} THEN nsProblem
        ELSE LET kind == KindOf(m, tns, r.n) IN
             (IF kind = "undefined" THEN {"R1"} ELSE {}) \cup
             (IF kind = "route" THEN {"R2"} ELSE {}) \cup
             (IF kind \in {"struct", "union", "alias"} /\ r.arg.k # "noref" THEN {"R3"} ELSE {}) \cup
             (IF r.n = "Void" /\ kind = "builtin" /\ r.nullable THEN {"R4"} ELSE {}) \cup
             (IF r.nullable /\ kind = "alias" /\ ChainNullable(m, tns, Lookup(m, tns, r.n).t, 4)
              THEN {"R5"} ELSE {}) \cup
             (IF kind = "builtin" /\ r.n = "List" /\ r.arg.k = "noref" THEN {"R6"} ELSE {}) \cup
             (IF kind = "builtin" /\ r.n # "List" /\ r.arg.k # "noref" THEN {"R6"} ELSE {}) \cup
             (IF kind = "builtin" /\ r.n = "List" /\ r.arg.k = "tref" THEN RefViolations(m, cur, r.arg) ELSE {})

\* what a reference denotes after unwrapping aliases and nullability: kind and <<ns, name>>
RECURSIVE Resolved(_, _, _, _)
Resolved(m, cur, r, fuel) ==
    LET tns == TargetNs(cur, r) IN
    IF fuel = 0 THEN [kind |-> "cycle", ns |-> tns, n |-> r.n]
    ELSE IF r.n \in Builtins THEN [kind |-> "builtin", ns |-> "", n |-> r.n]
    ELSE IF ~(tns \in Namespaces(m) /\ Has(m, tns, r.n)) THEN [kind |-> "undefined", ns |-> tns, n |-> r.n]
    ELSE LET d == Lookup(m, tns, r.n)
         IN  IF d.k = "alias" THEN Resolved(m, tns, d.t, fuel - 1) ELSE [kind |-> d.k, ns |-> tns, n |-> r.n]

\* ------------------------------------------------------------- inheritance
\* parent of type <<ns, n>> as <<ns, name>> or <<>> ; only direct (non-alias) struct/union parents count
ParentOf(m, ns, n) ==
    LET d == LookupT(m, ns, n) IN
    IF d.ext.k # "tref" THEN <<>>
    ELSE LET tns == TargetNs(ns, d.ext)
         IN  IF tns \in Namespaces(m) /\ Has(m, tns, d.ext.n) /\ Lookup(m, tns, d.ext.n).k = d.k
             THEN <<tns, d.ext.n>> ELSE <<>>
RECURSIVE Ancestors(_, _, _, _)
Ancestors(m, ns, n, fuel) ==
    IF fuel = 0 THEN <<>> ELSE
    LET p == ParentOf(m, ns, n) IN IF p = <<>> THEN <<>> ELSE <<p>> \o Ancestors(m, p[1], p[2], fuel - 1)
AllTypes(m) == {<<ns, d.n>> : ns \in Namespaces(m), d \in {x \in UNION {Range(TypeDefs(m, q)) : q \in Namespaces(m)} : TRUE}}
TypeSet(m) == UNION {{<<ns, d.n>> : d \in Range(TypeDefs(m, ns))} : ns \in Namespaces(m)}
NTypes(m) == Cardinality(TypeSet(m)) + 1
InCycle(m, ns, n) == <<ns, n>> \in Range(Ancestors(m, ns, n, NTypes(m)))
OnCyclePath(m, ns, n) == \E a \in Range(Ancestors(m, ns, n, NTypes(m))) : InCycle(m, a[1], a[2])

\* --- operational side: resolution in declaration order with an in-progress set
\* (ir_generator._populate_type_attributes / _resolve_type(enforce_fully_defined)).
\* Pop returns [done, err]: the set of populated types and whether a circular reference was met.
RECURSIVE Pop(_, _, _, _)
Pop(m, t, inprog, done) ==
    IF t \in done THEN [done |-> done, err |-> FALSE]
    ELSE LET p == ParentOf(m, t[1], t[2]) IN
         IF p = <<>> THEN [done |-> done \cup {t}, err |-> FALSE]
         ELSE IF p \in done THEN [done |-> done \cup {t}, err |-> FALSE]
         ELSE IF p \in inprog \cup {t} THEN [done |-> done, err |-> TRUE]
         ELSE LET r == Pop(m, p, inprog \cup {t}, done)
              IN  IF r.err THEN r ELSE [done |-> r.done \cup {t}, err |-> FALSE]
RECURSIVE PopAll(_, _, _)
PopAll(m, order, done) ==
    IF order = <<>> THEN FALSE
    ELSE LET r == Pop(m, Head(order), {}, done) IN IF r.err THEN TRUE ELSE PopAll(m, Tail(order), r.done)
\* declaration order: namespaces in order of first file, types in file order
NsOrder(m) == LET idx(ns) == CHOOSE i \in DOMAIN m : m[i].ns = ns /\ \A j \in DOMAIN m : m[j].ns = ns => i <= j
              IN  SelectSeq([i \in DOMAIN m |-> IF idx(m[i].ns) = i THEN m[i].ns ELSE ""], LAMBDA x : x # "")
DeclOrder(m) == Flat([i \in DOMAIN NsOrder(m) |->
                        LET ns == NsOrder(m)[i] IN [j \in DOMAIN TypeDefs(m, ns) |-> <<ns, TypeDefs(m, ns)[j].n>>]])
OpCycle(m) == PopAll(m, DeclOrder(m), {})
DeclCycle(m) == \E t \in TypeSet(m) : InCycle(m, t[1], t[2])

\* alias cycles
\* an alias may not (transitively) stand for a type built from itself: the chain is followed
\* through other aliases, List item types and nullable references (user types stop it:
\* a struct may contain itself)
RECURSIVE AliasReach(_, _, _, _, _)
AliasReach(m, ns, r, start, fuel) ==
    IF fuel = 0 \/ r.k # "tref" THEN FALSE
    ELSE IF r.n = "List" /\ r.ns = "" THEN AliasReach(m, ns, r.arg, start, fuel - 1)
    ELSE LET tns == TargetNs(ns, r) IN
         IF r.n \notin Builtins /\ tns \in Namespaces(m) /\ Has(m, tns, r.n) /\ Lookup(m, tns, r.n).k = "alias"
         THEN (<<tns, r.n>> = start) \/ AliasReach(m, tns, Lookup(m, tns, r.n).t, start, fuel - 1)
         ELSE FALSE
AliasCycle(m, ns, n) == AliasReach(m, ns, Lookup(m, ns, n).t, <<ns, n>>, 8)

\* fields along the chain
FieldNames(d) == [i \in DOMAIN (IF d.k = "struct" THEN d.fields ELSE d.tags) |->
                     (IF d.k = "struct" THEN d.fields ELSE d.tags)[i].n]
HasDup(s) == \E i, j \in DOMAIN s : i < j /\ s[i] = s[j]
\* names visible in struct/union d: own fields/tags plus, for a struct that enumerates subtypes, its type tags
OwnNames(d) == Range(FieldNames(d)) \cup (IF d.k = "struct" THEN {d.subs[i].n : i \in DOMAIN d.subs} ELSE {})

\* a union is open iff it or an ancestor is declared open
IsOpen(m, ns, n) == LET d == LookupT(m, ns, n) IN
    ~d.closed \/ \E a \in Range(Ancestors(m, ns, n, NTypes(m))) : ~LookupT(m, a[1], a[2]).closed

\* ------------------------------------------------------------- rules per definition
MemberNames(fs) == [i \in DOMAIN fs |-> fs[i].n]
PatchViolations(m, ns, p) ==
    LET raw == RawDefsOf(m, ns)
        targets == {d \in Range(raw) : d.k \in {"struct", "union"} /\ d.n = p.n}
        patches == SelectSeq(raw, LAMBDA q : q.k = "patch" /\ q.n = p.n)
        allnew  == Flat([i \in DOMAIN patches |-> MemberNames(patches[i].fields)])
    IN  (IF targets = {} THEN {"P1"} ELSE {}) \cup                \* "Only data types that have been fully-defined elsewhere can be patched"
        (IF \E d \in targets : d.k # p.pk \/ (d.k = "union" /\ d.closed # p.closed) THEN {"P2"} ELSE {}) \cup
        \* "patching can only be used to add additional fields, not mutate existing fields"
        (IF HasDup(allnew) \/ \E d \in targets : Range(MemberNames(p.fields)) \cap
                                                   Range(MemberNames(IF d.k = "struct" THEN d.fields ELSE d.tags)) # {}
         THEN {"P3"} ELSE {})
DefViolations(m, ns, d) ==
    CASE d.k = "patch" -> PatchViolations(m, ns, d)
      [] d.k = "import" ->
           (IF d.target = ns THEN {"I1"} ELSE {}) \cup
           (IF d.target # ns /\ d.target \notin Namespaces(m) THEN {"I2"} ELSE {}) \cup
           (IF d.target # ns /\ d.target \in Namespaces(m) /\ ns \in Imports(m, d.target) THEN {"I3"} ELSE {})
      [] d.k = "alias" ->
           RefViolations(m, ns, d.t) \cup (IF AliasCycle(m, ns, d.n) THEN {"A1"} ELSE {})
      [] d.k = "route" ->
           RefViolations(m, ns, d.arg) \cup RefViolations(m, ns, d.res) \cup RefViolations(m, ns, d.err) \cup
           (IF d.dep.k = "by" THEN
                (IF ~Has(m, ns, d.dep.n) THEN {"Q1"}
                 ELSE IF Lookup(m, ns, d.dep.n).k # "route" THEN {"Q2"}
                 ELSE IF ~\E x \in Range(Named(m, ns)) : x.k = "route" /\ x.n = d.dep.n /\ x.ver = d.dep.ver
                      THEN {"Q1"} ELSE {})
            ELSE {})
      [] d.k = "struct" ->
           LET pk == IF d.ext.k = "tref" THEN RefViolations(m, ns, d.ext) ELSE {}
               pres == IF d.ext.k = "tref" /\ pk = {} THEN KindOf(m, TargetNs(ns, d.ext), d.ext.n) ELSE "none"
               anc == Ancestors(m, ns, d.n, NTypes(m))
           IN  pk \cup
               (IF pres \in {"union", "builtin"} THEN {"T1"} ELSE {}) \cup
               (IF pres = "alias" THEN {"T2"} ELSE {}) \cup
               (IF InCycle(m, ns, d.n) \/ OnCyclePath(m, ns, d.n) THEN {"T3"} ELSE {}) \cup
               UNION {RefViolations(m, ns, d.fields[i].t) : i \in DOMAIN d.fields} \cup
               (IF \E i \in DOMAIN d.fields : d.fields[i].t.k = "tref" /\ ~d.fields[i].t.nullable /\
                       Resolved(m, ns, d.fields[i].t, 6).n = "Void" /\ Resolved(m, ns, d.fields[i].t, 6).kind = "builtin"
                THEN {"T4"} ELSE {}) \cup
               (IF HasDup(FieldNames(d)) THEN {"T8"} ELSE {}) \cup
               (IF ~InCycle(m, ns, d.n) /\ \E a \in Range(anc) :
                       Range(FieldNames(d)) \cap OwnNames(LookupT(m, a[1], a[2])) # {} THEN {"T8"} ELSE {}) \cup
               (IF \E i \in DOMAIN d.fields : d.fields[i].dflt /\
                       (d.fields[i].t.nullable \/ ChainNullable(m, ns, d.fields[i].t, 4)) THEN {"T10"} ELSE {}) \cup
               \* examples (lang_ref "Examples"): known fields only, every required field, literals of the field's type
               (IF d.examples # <<>> /\ ~InCycle(m, ns, d.n) THEN
                   LET chain == [i \in DOMAIN anc |-> LookupT(m, anc[i][1], anc[i][2]).fields]
                       allf  == Flat(chain) \o d.fields
                       fnames == {allf[i].n : i \in DOMAIN allf}
                       ftype(n) == (CHOOSE i \in DOMAIN allf : allf[i].n = n)
                       LitOk(f, lit) ==
                           LET r == Resolved(m, ns, f.t, 6) IN
                           \/ lit = "null" /\ (f.t.nullable \/ ChainNullable(m, ns, f.t, 4))
                           \/ lit = "int" /\ r.kind = "builtin" /\ r.n = "Int32"
                           \/ lit = "str" /\ r.kind = "builtin" /\ r.n = "String"
                   IN  (IF \E e \in Range(d.examples) : \E a \in Range(e.assigns) : a.n \notin fnames THEN {"X1"} ELSE {}) \cup
                       (IF \E e \in Range(d.examples) : \E i \in DOMAIN allf :
                              ~allf[i].dflt /\ ~allf[i].t.nullable /\ ~ChainNullable(m, ns, allf[i].t, 4)
                              /\ allf[i].n \notin {a.n : a \in Range(e.assigns)} THEN {"X2"} ELSE {}) \cup
                       (IF \E e \in Range(d.examples) : \E a \in Range(e.assigns) :
                              a.n \in fnames /\ ~LitOk(allf[ftype(a.n)], a.lit) THEN {"X3"} ELSE {}) \cup
                       (IF HasDup([i \in DOMAIN d.examples |-> d.examples[i].label]) THEN {"S9"} ELSE {}) \cup
                       (IF \E e \in Range(d.examples) : HasDup([i \in DOMAIN e.assigns |-> e.assigns[i].n]) THEN {"S10"} ELSE {})
                ELSE {}) \cup
               \* enumerated subtypes
               (IF d.hassubs THEN
                   UNION {RefViolations(m, ns, d.subs[i].t) : i \in DOMAIN d.subs} \cup
                   (IF \E i \in DOMAIN d.subs : RefViolations(m, ns, d.subs[i].t) = {} /\
                           Resolved(m, ns, d.subs[i].t, 6).kind # "struct" THEN {"E2"} ELSE {}) \cup
                   (IF \E i \in DOMAIN d.subs : RefViolations(m, ns, d.subs[i].t) = {} /\
                           Resolved(m, ns, d.subs[i].t, 6).kind = "struct" /\
                           ParentOf(m, Resolved(m, ns, d.subs[i].t, 6).ns, Resolved(m, ns, d.subs[i].t, 6).n) # <<ns, d.n>>
                    THEN {"E3"} ELSE {}) \cup
                   (IF HasDup([i \in DOMAIN d.subs |-> d.subs[i].t.n]) THEN {"E4"} ELSE {}) \cup
                   (IF \E t \in TypeSet(m) : LookupT(m, t[1], t[2]).k = "struct" /\ ParentOf(m, t[1], t[2]) = <<ns, d.n>>
                           /\ ~\E i \in DOMAIN d.subs : Resolved(m, ns, d.subs[i].t, 6).n = t[2] /\
                                                        Resolved(m, ns, d.subs[i].t, 6).ns = t[1]
                    THEN {"E5"} ELSE {}) \cup
                   (IF HasDup([i \in DOMAIN d.subs |-> d.subs[i].n]) \/
                       {d.subs[i].n : i \in DOMAIN d.subs} \cap Range(FieldNames(d)) # {} THEN {"E6"} ELSE {}) \cup
                   (IF d.ext.k = "tref" THEN {"E7"} ELSE {}) \cup
                   (IF d.subs = <<>> THEN {"E0"} ELSE {}) \cup
                   \* listed subtypes that do not enumerate subtypes themselves must be leaves
                   (IF \E i \in DOMAIN d.subs :
                          LET s == Resolved(m, ns, d.subs[i].t, 6) IN
                          s.kind = "struct" /\ ~LookupT(m, s.ns, s.n).hassubs /\
                          \E t \in TypeSet(m) : LookupT(m, t[1], t[2]).k = "struct" /\ ParentOf(m, t[1], t[2]) = <<s.ns, s.n>>
                    THEN {"E8"} ELSE {})
                ELSE {})
      [] d.k = "union" ->
           LET pk == IF d.ext.k = "tref" THEN RefViolations(m, ns, d.ext) ELSE {}
               pres == IF d.ext.k = "tref" /\ pk = {} THEN KindOf(m, TargetNs(ns, d.ext), d.ext.n) ELSE "none"
               anc == Ancestors(m, ns, d.n, NTypes(m))
               typed == {i \in DOMAIN d.tags : d.tags[i].t.k = "tref"}
           IN  pk \cup
               (IF pres \in {"struct", "builtin"} THEN {"T1"} ELSE {}) \cup
               (IF pres = "alias" THEN {"T2"} ELSE {}) \cup
               (IF InCycle(m, ns, d.n) \/ OnCyclePath(m, ns, d.n) THEN {"T3"} ELSE {}) \cup
               UNION {RefViolations(m, ns, d.tags[i].t) : i \in typed} \cup
               (IF \E i \in typed : ~d.tags[i].t.nullable /\ Resolved(m, ns, d.tags[i].t, 6).kind = "builtin" /\
                                    Resolved(m, ns, d.tags[i].t, 6).n = "Void" THEN {"T5"} ELSE {}) \cup
               (IF "other" \in Range(FieldNames(d)) THEN {"T6"} ELSE {}) \cup
               (IF d.closed /\ pres = "union" /\ ~InCycle(m, ns, d.n) /\
                   IsOpen(m, TargetNs(ns, d.ext), d.ext.n) THEN {"T7"} ELSE {}) \cup
               (IF HasDup(FieldNames(d)) THEN {"T9"} ELSE {}) \cup
               (IF ~InCycle(m, ns, d.n) /\ \E a \in Range(anc) :
                       Range(FieldNames(d)) \cap OwnNames(LookupT(m, a[1], a[2])) # {} THEN {"T9"} ELSE {})

\* ------------------------------------------------------------- rules per namespace
NsViolations(m, ns) ==
    LET nd == Named(m, ns)
        nonroute == SelectSeq(nd, LAMBDA d : d.k # "route")
        routes == SelectSeq(nd, LAMBDA d : d.k = "route")
    IN  (IF \E i, j \in DOMAIN nd : i < j /\ nd[i].n = nd[j].n /\ ~(nd[i].k = "route" /\ nd[j].k = "route")
         THEN {"N1"} ELSE {}) \cup
        (IF \E i, j \in DOMAIN routes : i < j /\ routes[i].n = routes[j].n /\ routes[i].ver = routes[j].ver
         THEN {"N2"} ELSE {}) \cup
        (IF \E i, j \in DOMAIN nd : i < j /\ nd[i].n # nd[j].n /\ Canon(nd[i].n) = Canon(nd[j].n)
         THEN {"N3"} ELSE {}) \cup
        (IF \E i \in DOMAIN nd : Canon(nd[i].n) = Canon(ns) THEN {"N3"} ELSE {}) \cup
        (IF \E i \in DOMAIN routes : routes[i].ver < 1 THEN {"S8"} ELSE {})

Violations(m) ==
    UNION {NsViolations(m, ns) : ns \in Namespaces(m)} \cup
    UNION {UNION {DefViolations(m, ns, d) : d \in Range(DefsOf(m, ns))} : ns \in Namespaces(m)}
WellFormed(m) == Violations(m) = {}

\* documentation and annotations written on a member (absent: none)
DocOf(x) == IF "doc" \in DOMAIN x THEN x.doc ELSE ""
AnnOf(x) == IF "ann" \in DOMAIN x THEN x.ann ELSE ""
\* ------------------------------------------------------------- Denote
\* the API description: per namespace the declarations with what was written (references as
\* written), plus the documented implicit members
DenoteDef(m, ns, d) ==
    CASE d.k = "struct" ->
           [k |-> "struct", n |-> d.n, parent |-> ParentOf(m, ns, d.n),
            fields |-> [i \in DOMAIN d.fields |-> [n |-> d.fields[i].n, t |-> d.fields[i].t, dflt |-> d.fields[i].dflt,
                                                   doc |-> DocOf(d.fields[i]), ann |-> AnnOf(d.fields[i])]],
            all_fields |-> Flat([i \in DOMAIN Ancestors(m, ns, d.n, NTypes(m)) |->
                                   LET a == Ancestors(m, ns, d.n, NTypes(m))[Len(Ancestors(m, ns, d.n, NTypes(m))) + 1 - i]
                                   IN  FieldNames(LookupT(m, a[1], a[2]))]) \o FieldNames(d),
            subs |-> [i \in DOMAIN d.subs |-> [tag |-> d.subs[i].n, sub |-> Resolved(m, ns, d.subs[i].t, 6).n]],
            hassubs |-> d.hassubs, catchall |-> d.hassubs /\ d.catchall,
            examples |-> {d.examples[i].label : i \in DOMAIN d.examples},
            patch_groups |-> [i \in DOMAIN CanonPatches(m, ns, d) |-> MemberNames(CanonPatches(m, ns, d)[i].fields)]]
      [] d.k = "union" ->
           [k |-> "union", n |-> d.n, parent |-> ParentOf(m, ns, d.n), closed |-> d.closed,
            tags |-> FieldNames(d) \o
                     (IF ~d.closed /\ (d.ext.k # "tref" \/ ~IsOpen(m, TargetNs(ns, d.ext), d.ext.n))
                      THEN <<"other">> ELSE <<>>),
            tagtypes |-> [i \in DOMAIN d.tags |-> d.tags[i].t],
            tagmeta |-> [i \in DOMAIN d.tags |-> [doc |-> DocOf(d.tags[i]), ann |-> AnnOf(d.tags[i])]],
            all_tags |-> Flat([i \in DOMAIN Ancestors(m, ns, d.n, NTypes(m)) |->
                                   LET a == Ancestors(m, ns, d.n, NTypes(m))[Len(Ancestors(m, ns, d.n, NTypes(m))) + 1 - i]
                                   IN  FieldNames(LookupT(m, a[1], a[2]))]) \o FieldNames(d),
            \* "one example per void tag": own, inherited, and the catch-all
            examples |-> {t.n : t \in {x \in UNION {Range(LookupT(m, a[1], a[2]).tags) :
                                                      a \in Range(Ancestors(m, ns, d.n, NTypes(m))) \cup {<<ns, d.n>>}} :
                                        x.t.k = "voidtag"}}
                         \cup (IF IsOpen(m, ns, d.n) THEN {"other"} ELSE {}),
            patch_groups |-> [i \in DOMAIN CanonPatches(m, ns, d) |-> MemberNames(CanonPatches(m, ns, d)[i].fields)]]
      [] d.k = "alias" -> [k |-> "alias", n |-> d.n, t |-> d.t]
      [] d.k = "route" -> [k |-> "route", n |-> d.n, ver |-> d.ver, arg |-> d.arg, res |-> d.res, err |-> d.err,
                           deprecated |-> d.dep.k # "nodep",
                           by |-> IF d.dep.k = "by" THEN <<d.dep.n, d.dep.ver>> ELSE <<>>]
\* TLC has no order on strings: the alphabetical order of the lists is checked on the
\* observation side; here the lists are sets.
DenoteNs(m, ns) ==
    LET nd == Named(m, ns) IN
    [ns |-> ns,
     imports |-> Imports(m, ns),
     types   |-> {DenoteDef(m, ns, d) : d \in {x \in Range(nd) : x.k \in {"struct", "union"}}},
     aliases |-> {DenoteDef(m, ns, d) : d \in {x \in Range(nd) : x.k = "alias"}},
     routes  |-> {DenoteDef(m, ns, d) : d \in {x \in Range(nd) : x.k = "route"}}]
Denote(m) == {DenoteNs(m, ns) : ns \in Namespaces(m)}
=============================================================================

#!/bin/sh
# usage: seedtest_wt.sh <tree-with-change-applied> <ID>...   runs the quick checks against a scratch tree (not /repo), output under /tmp/seedout
tree="$1"; shift
out=/tmp/seedout/$(basename "$tree"); mkdir -p "$out"
for id in "$@"; do
  cd /verif && STONE_VERIF_TREE="$tree" STONE_VERIF_OUT="$out" ./check "$id" --tier quick > "$out/$id.out" 2>&1
  echo "$id exit=$? $(grep -c '^VIOLATION' "$out/$id.out") violation lines; first: $(grep -v '^VIOLATION' "$out/$id.out" | grep -v KNOWN | head -2 | cut -c1-300)"
done

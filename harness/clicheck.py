"""C19 judge: StoneCli vectors replayed through stone.cli.main() in-process with a recording backend."""
import contextlib
import io
import json
import os
import shutil
import sys
import tempfile

from runner import Judge

ROUTES = [  # index = position in StoneCli!RouteList (1-based)
    ('nsa', 'ra', 1, dict(a1='x', a2=1, a3=True, a4=None)),
    ('nsa', 'rb', 1, dict(a1='y', a2=1, a3=True, a4='x')),
    ('nsa', 'rb', 2, dict(a1='x', a2=2, a3=True, a4=None)),
    ('nsa', 'rc', 1, dict(a1='y', a2=2, a3=True, a4='y')),
    ('nsb', 'ra', 1, dict(a1='x', a2=1, a3=False, a4='x')),     # same name and version as nsa.ra
    ('nsb', 're', 1, dict(a1='y', a2=1, a3=False, a4=None)),
    ('nsb', 'rf', 1, dict(a1='x', a2=2, a3=False, a4='y')),
    ('nsc', 'rg', 1, dict(a1='y', a2=2, a3=False, a4=None)),
]
DEFAULTS = dict(a1='x', a2=1, a3=False, a4=None)
ATOMS = ['a1="x"', 'a1!="x"', 'a2=1', 'a2!=2', 'a3=true', 'a4=null', 'a4!="x"', 'ax=null', 'ax!=null',
         'a2=1.5', 'a1=1', 'a3=1']
SCHEMA = ['a1', 'a2', 'a3', 'a4']

BACKEND = '''
import json, os
from stone.backend import Backend

class RecordingBackend(Backend):
    def generate(self, api):
        out = {'schema': [f.name for f in api.route_schema.fields], 'namespaces': {}}
        for ns in api.namespaces.values():
            out['namespaces'][ns.name] = {
                'routes': [[r.name, r.version, {k: repr(v) for k, v in r.attrs.items()}] for r in ns.routes],
                'route_by_name': sorted(ns.route_by_name),
                'route_by_name_ok': all(ns.route_by_name[n] in ns.routes and ns.route_by_name[n].version == 1 for n in ns.route_by_name),
                'routes_by_name': {n: sorted(g.at_version) for n, g in ns.routes_by_name.items()},
                'routes_by_name_ok': all(g.at_version[v] in ns.routes for n, g in ns.routes_by_name.items() for v in g.at_version),
                'types': sorted(d.name for d in ns.data_types)}
        with open(os.path.join(self.target_folder_path, 'api.json'), 'w') as f:
            json.dump(out, f)
'''


def spec_files():
    files = {'stone_cfg.stone': 'namespace stone_cfg\n\nstruct Route\n    a1 String = "x"\n    a2 Int64 = 1\n'
                                '    a3 Boolean = false\n    a4 String?\n'}
    by_ns = {}
    for ns, n, v, attrs in ROUTES:
        lines = by_ns.setdefault(ns, [])
        name = n if v == 1 else '%s:%d' % (n, v)
        lines.append('route %s(Void, Void, Void)' % name)
        lines.append('    attrs')
        for k in SCHEMA:
            val = attrs[k]
            if val is None:
                continue
            lit = '"%s"' % val if isinstance(val, str) else ('true' if val is True else 'false' if val is False else str(val))
            lines.append('        %s = %s' % (k, lit))
        lines.append('')
    for ns in ('nsa', 'nsb', 'nsc', 'nsd'):
        body = ['namespace %s' % ns, '', 'struct T%s' % ns[-1], '    f Int32', ''] + by_ns.get(ns, [])
        files[ns + '.stone'] = '\n'.join(body) + '\n'
    return files


def render_expr(toks):
    out = []
    for t in toks:
        k = t['k']
        out.append(ATOMS[t['i'] - 1] if k == 'atom' else {'and': 'and', 'or': 'or', 'lp': '(', 'rp': ')'}[k])
    return ' '.join(out)


class CliJudge(Judge):
    def __init__(self, params):
        super().__init__(params)
        self.tmp = tempfile.mkdtemp(prefix='verif-cli-')
        self.paths = []
        for name, text in spec_files().items():
            p = os.path.join(self.tmp, name)
            with open(p, 'w') as f:
                f.write(text)
            self.paths.append(p)
        self.backend = os.path.join(self.tmp, 'rec.stoneg.py')
        with open(self.backend, 'w') as f:
            f.write(BACKEND)
        self.out = os.path.join(self.tmp, 'out')
        self.seen = set()

    def finish(self):
        shutil.rmtree(self.tmp, ignore_errors=True)

    def run_cli(self, argv):
        import stone.cli as cli
        api_json = os.path.join(self.out, 'api.json')
        if os.path.exists(api_json):
            os.remove(api_json)
        old_argv = sys.argv
        sys.argv = ['stone'] + argv
        err = io.StringIO()
        code = 0
        try:
            with contextlib.redirect_stderr(err), contextlib.redirect_stdout(io.StringIO()):
                try:
                    cli.main()
                except SystemExit as e:
                    code = e.code if isinstance(e.code, int) else (0 if e.code is None else 1)
        finally:
            sys.argv = old_argv
            sys.modules.pop('rec.stoneg', None)
            sys.modules.pop('rec', None)
        got = None
        if os.path.exists(api_json):
            with open(api_json) as f:
                got = json.load(f)
        return code, err.getvalue(), got

    def on_vec(self, tag, obj):
        if tag != 'VEC':
            return
        key = json.dumps(obj, sort_keys=True)
        if key in self.seen:
            return
        self.seen.add(key)
        self.n += 1
        seq = lambda x: x if isinstance(x, list) else []
        toks = seq(obj['toks'])
        expr = render_expr(toks)
        argv = [self.backend, self.out] + self.paths
        if toks:
            argv += ['-f', expr]
        for w in seq(obj['w']):
            if w != '<none>':
                argv += ['-w', w]
        for b in seq(obj['b']):
            if b != '<none>':
                argv += ['-b', b]
        for a in seq(obj['a']):
            if a != '<none>':
                argv += ['-a', a]
        ctx = {'vector': obj, 'argv': argv[2 + len(self.paths):], 'expr': expr}
        self.judged += 1
        if self.judged % 1999 == 1:
            self.sample({'args': ctx['argv'], 'expected_error': obj['err'], 'expected_routes': seq(obj['keep'])})
        try:
            code, err, got = self.run_cli(argv)
        except Exception as e:
            self.violation('exc_' + type(e).__name__, 'stone.cli.main raised %s: %s for %s' % (type(e).__name__, e, ctx['argv']), ctx)
            return
        if obj['err']:
            self.count('must_fail')
            if code == 0 or got is not None:
                self.violation('error_ignored_' + obj['err'],
                               '%s must be reported as an error, but the backend ran (exit %s) for %s'
                               % (obj['err'], code, ctx['argv']), ctx)
            elif not err.strip():
                self.violation(None, 'error exit without a message for %s' % ctx['argv'], ctx)
            return
        self.count('must_run')
        if code != 0 or got is None:
            self.violation(None, 'valid command line %s failed (exit %s): %s' % (ctx['argv'], code, err[-200:]), ctx)
            return
        unspec = set(seq(obj['unspec']))
        keep = set(seq(obj['keep']))
        attrs = set(seq(obj['attrs']))
        for ns in ('nsa', 'nsb', 'nsc', 'nsd'):
            g = got['namespaces'].get(ns)
            if g is None:
                self.violation(None, 'namespace %s disappeared for %s' % (ns, ctx['argv']), ctx)
                continue
            if g['types'] != ['T' + ns[-1]]:
                self.violation(None, 'types of %s changed by route pruning: %s' % (ns, g['types']), ctx)
            got_routes = {(r[0], r[1]) for r in g['routes']}
            for i, (rns, n, v, rattrs) in enumerate(ROUTES, 1):
                if rns != ns or i in unspec:
                    continue
                if (i in keep) != ((n, v) in got_routes):
                    self.violation(None, 'route %s.%s:%d %s for %s' % (ns, n, v,
                                   'dropped although selected' if i in keep else 'visible although not selected',
                                   ctx['argv']), ctx)
            # by-name tables consistent with the route list
            exp_by = {}
            for n, v in got_routes:
                exp_by.setdefault(n, []).append(v)
            exp_by = {n: sorted(vs) for n, vs in exp_by.items()}
            if g['routes_by_name'] != exp_by or not g['routes_by_name_ok']:
                self.violation(None, 'routes_by_name of %s inconsistent with routes: %s vs %s for %s'
                               % (ns, g['routes_by_name'], exp_by, ctx['argv']), ctx)
            if g['route_by_name'] != sorted(n for n, v in got_routes if v == 1) or not g['route_by_name_ok']:
                self.violation(None, 'route_by_name of %s inconsistent with routes: %s for %s'
                               % (ns, g['route_by_name'], ctx['argv']), ctx)
            for r in g['routes']:
                if set(r[2]) != attrs:
                    self.violation(None, 'route %s.%s shows attributes %s, selected %s for %s'
                                   % (ns, r[0], sorted(r[2]), sorted(attrs), ctx['argv']), ctx)
                else:
                    full = dict(DEFAULTS)
                    full.update({k: v for k, v in [x for x in ROUTES if x[0] == ns and x[1] == r[0] and x[2] == r[1]][0][3].items()
                                 if v is not None})
                    for k in attrs:
                        if r[2][k] != repr(full[k]):
                            self.violation(None, 'attribute %s of %s.%s is %s, declared %r' % (k, ns, r[0], r[2][k], full[k]), ctx)
        if got['schema'] != [a for a in SCHEMA if a in attrs]:
            self.violation(None, 'route schema shows %s, selected %s for %s' % (got['schema'], sorted(attrs), ctx['argv']), ctx)

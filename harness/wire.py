"""render / project between the abstract values and documents of specs/StoneWire.tla and
the Python objects of a generated package (DESIGN 2.3: the only two translation functions)."""
import base64
import datetime
import hashlib
import re

from anchors import INT_ANCHORS, FLOAT_ANCHORS, INT_RANK, FLOAT_RANK
import stonegen
from stonegen import TS_FORMATS, concrete_str

TS_VALUES = {
    # ids 2 and 3: values the format does not carry completely (fractions of a second, an explicit UTC zone, a time of day
    # under a date format); they encode like ids 0 / 1 (json_serializer.rst: strftime with the declared format) but cannot
    # round-trip, so only the encoder checks (C05, wide stage) use them
    'f1': [datetime.datetime(2015, 5, 12, 15, 50, 38), datetime.datetime(1999, 12, 31, 23, 59, 59),
           datetime.datetime(2015, 5, 12, 15, 50, 38, 250000),
           datetime.datetime(1999, 12, 31, 23, 59, 59, tzinfo=datetime.timezone.utc)],
    'f2': [datetime.datetime(2015, 5, 12), datetime.datetime(1999, 12, 31),
           datetime.datetime(2015, 5, 12, 13, 14, 15, 16), datetime.datetime(1999, 12, 31, tzinfo=datetime.timezone.utc)],
    'f3': [datetime.datetime(2015, 5, 12, 15, 50, 38, 250000), datetime.datetime(1999, 12, 31, 23, 59, 59, 1)],
}


class Unprojectable(Exception):
    pass


def unalias(schema, t):
    while t['k'] == 'ref' and schema[t['n']]['k'] == 'alias':
        t = schema[t['n']]['t']
    return t


def chain(schema, n):
    out = []
    while n:
        out.append(n)
        n = schema[n]['parent']
    return out[::-1]


def fields_inherited(schema, n):
    return [f for c in chain(schema, n) for f in schema[c]['fields']]


def all_tags(schema, n):
    return [t for c in chain(schema, n) for t in schema[c]['tags']]


def tag_type(schema, n, tag):
    for t in all_tags(schema, n):
        if t['n'] == tag:
            return t['t']
    if tag == 'other':
        return {'k': 'void'}
    raise KeyError(tag)


def concrete_bytes(v):
    if v['len'] == 0:
        return b''
    return bytes([0xff if v['id'] == 1 else 0x61]) * v['len']


class Binder:
    """Type-directed conversion for one schema and one generated package."""

    def __init__(self, schema, gen):
        self.schema = schema
        self.gen = gen
        self._mods = {}

    def cls(self, name):
        ns = self.schema[name]['ns']
        if ns not in self._mods:
            self._mods[ns] = self.gen.module(ns)
        return getattr(self._mods[ns], stonegen.written(name))

    def validator(self, name):
        ns = self.schema[name]['ns']
        if ns not in self._mods:
            self._mods[ns] = self.gen.module(ns)
        return getattr(self._mods[ns], stonegen.written(name) + '_validator')

    def model_name(self, o, kind):
        """model name of the class of o (classes of different namespaces may carry the same written name)"""
        cname = type(o).__name__
        for n, d in self.schema.items():
            if d['k'] == kind and stonegen.written(n) == cname and type(o) is self.cls(n):
                return n
        return None

    # ------------------------------------------------------------ abstract -> python
    def to_py(self, t, v):
        sc = self.schema
        k = t['k']
        if v['k'] == 'none':
            return None
        if k == 'nullable':
            return self.to_py(t['e'], v)
        if k == 'int':
            return INT_ANCHORS[v['r']]
        if k == 'float':
            return FLOAT_ANCHORS[v['r']]
        if k == 'str':
            return concrete_str(v)
        if k == 'bytes':
            return concrete_bytes(v)
        if k == 'bool':
            return v['b']
        if k == 'ts':
            return TS_VALUES[t['fmt']][v['id']]
        if k == 'list':
            return [self.to_py(t['e'], x) for x in v['items']]
        if k == 'map':
            return {key: self.to_py(t['v'], x) for key, x in _items(v['m'])}
        if k == 'ref':
            d = sc[t['n']]
            if d['k'] == 'alias':
                return self.to_py(d['t'], v)
            if d['k'] == 'struct':
                obj = self.cls(v['c'])()
                ftypes = {f['n']: f['t'] for f in fields_inherited(sc, v['c'])}
                for fn, fv in _items(v['f']):
                    setattr(obj, fn, self.to_py(ftypes[fn], fv))
                return obj
            if d['k'] == 'union':
                tt = tag_type(sc, v['c'], v['tag'])
                return self.cls(v['c'])(v['tag'], self.to_py(tt, v['v']))
        raise ValueError((t, v))

    # ------------------------------------------------------------ python -> abstract
    def from_py(self, t, o):
        sc = self.schema
        k = t['k']
        if o is None:
            return {'k': 'none'}
        if k == 'nullable':
            return self.from_py(t['e'], o)
        if k == 'void':
            raise Unprojectable('non-None for void: %r' % (o,))
        if k == 'int':
            if isinstance(o, bool) or not isinstance(o, int) or o not in INT_RANK:
                raise Unprojectable('int %r' % (o,))
            return {'k': 'int', 'r': INT_RANK[o]}
        if k == 'float':
            # an int is a valid value of a float type (lang_ref; stored as given in union payloads)
            if isinstance(o, bool) or not isinstance(o, (int, float)) or float(o) not in FLOAT_RANK:
                raise Unprojectable('float %r' % (o,))
            return {'k': 'float', 'r': FLOAT_RANK[float(o)]}
        if k == 'str':
            if not isinstance(o, str):
                raise Unprojectable('str %r' % (o,))
            if o == '':
                return {'k': 'str', 'len': 0, 'ok': True, 'u': 0}
            m = re.match(r'^se(\d)cret\1x*$', o)
            if m:
                return {'k': 'str', 'len': len(o), 'ok': True, 'u': int(m.group(1))}
            body = o[:-1] if o.endswith(('Z', '\n')) else o
            u = 1 if 'é' in o else 0
            if len(o) >= 3:
                # texts of three or more characters carry a space in second position (stonegen.concrete_str)
                if o[1] != ' ':
                    raise Unprojectable('str %r' % (o,))
                body = body[0] + body[2:]
            if body.strip('aé') != '' or (u and 'a' in body):
                raise Unprojectable('str %r' % (o,))
            return {'k': 'str', 'len': len(o), 'ok': not o.endswith(('Z', '\n')), 'u': u}
        if k == 'bytes':
            if not isinstance(o, bytes):
                raise Unprojectable('bytes %r' % (o,))
            if o == b'':
                return {'k': 'bytes', 'len': 0, 'id': 0}
            if o.strip(b'\xff') == b'':
                return {'k': 'bytes', 'len': len(o), 'id': 1}
            if o.strip(b'a') == b'':
                return {'k': 'bytes', 'len': len(o), 'id': 0}
            raise Unprojectable('bytes %r' % (o,))
        if k == 'bool':
            if not isinstance(o, bool):
                raise Unprojectable('bool %r' % (o,))
            return {'k': 'bool', 'b': o}
        if k == 'ts':
            if not isinstance(o, datetime.datetime) or o not in TS_VALUES[t['fmt']]:
                raise Unprojectable('ts %r' % (o,))
            return {'k': 'ts', 'id': TS_VALUES[t['fmt']].index(o)}
        if k == 'list':
            if not isinstance(o, list):
                raise Unprojectable('list %r' % (o,))
            return {'k': 'list', 'items': [self.from_py(t['e'], x) for x in o]}
        if k == 'map':
            if not isinstance(o, dict):
                raise Unprojectable('map %r' % (o,))
            return {'k': 'map', 'm': {key: self.from_py(t['v'], x) for key, x in o.items()}}
        if k == 'ref':
            d = sc[t['n']]
            if d['k'] == 'alias':
                return self.from_py(d['t'], o)
            if d['k'] == 'struct':
                cname = self.model_name(o, 'struct')
                if cname is None:
                    raise Unprojectable('struct %r' % (o,))
                f = {}
                for fd in fields_inherited(sc, cname):
                    slot = getattr(o, '_%s_value' % fd['n'])
                    if repr(slot) == 'NOT_SET':
                        continue
                    pv = self.from_py(fd['t'], slot)
                    if pv['k'] != 'none':
                        f[fd['n']] = pv
                return {'k': 'struct', 'c': cname, 'f': f}
            if d['k'] == 'union':
                cname = self.model_name(o, 'union')
                if cname is None:
                    raise Unprojectable('union %r' % (o,))
                tag = o._tag
                return {'k': 'union', 'c': cname, 'tag': tag,
                        'v': self.from_py(_nullable(tag_type(sc, cname, tag)), o._value)}
        raise ValueError(t)


def unset_defaults(binder, t, o, path=''):
    """Unset fields with a declared default inside the python value o of type t whose attribute does not read the declared
    default: list of (path, declared default, what is read)."""
    sc = binder.schema
    out = []
    if o is None:
        return out
    k = t['k']
    if k == 'nullable':
        return unset_defaults(binder, t['e'], o, path)
    if k == 'list':
        for i, x in enumerate(o):
            out += unset_defaults(binder, t['e'], x, '%s[%d]' % (path, i))
    elif k == 'map':
        for key, x in o.items():
            out += unset_defaults(binder, t['v'], x, '%s[%s]' % (path, key))
    elif k == 'ref':
        d = sc[t['n']]
        if d['k'] == 'alias':
            return unset_defaults(binder, d['t'], o, path)
        if d['k'] == 'struct':
            cname = binder.model_name(o, 'struct')
            if cname is None:
                return out
            for fd in fields_inherited(sc, cname):
                slot = getattr(o, '_%s_value' % fd['n'])
                if repr(slot) == 'NOT_SET':
                    if fd['d']['k'] != 'nodefault':
                        try:
                            got = getattr(o, fd['n'])
                            ok = binder.from_py(fd['t'], got) == fd['d']
                        except Exception as e:
                            got, ok = '%s: %s' % (type(e).__name__, e), False
                        if not ok:
                            out.append(('%s.%s' % (path, fd['n']), fd['d'], repr(got)[:80]))
                else:
                    out += unset_defaults(binder, fd['t'], slot, '%s.%s' % (path, fd['n']))
        elif d['k'] == 'union':
            cname = binder.model_name(o, 'union')
            if cname is not None and o._value is not None:
                out += unset_defaults(binder, tag_type(sc, cname, o._tag), o._value, '%s.%s' % (path, o._tag))
    return out


def _nullable(t):
    return t


def _items(m):
    """TLC prints an empty function as an empty sequence."""
    if isinstance(m, list):
        assert not m
        return []
    return m.items()


def norm_abs(v):
    """Normalise abstract JSON as printed by TLC (empty function = [] -> {})."""
    if isinstance(v, dict):
        out = {}
        for k, x in v.items():
            if k in ('f', 'm') and isinstance(x, list) and not x:
                out[k] = {}
            else:
                out[k] = norm_abs(x)
        return out
    if isinstance(v, list):
        return [norm_abs(x) for x in v]
    return v


# ---------------------------------------------------------------- documents
def doc_to_json(d):
    k = d['k']
    if k == 'jnull':
        return None
    if k == 'jbool':
        return d['b']
    if k == 'jint':
        return INT_ANCHORS[d['r']]
    if k == 'jfloat':
        return FLOAT_ANCHORS[d['r']]
    if k == 'jstr':
        of = d['of']
        if of == 'str':
            return concrete_str(d['v'])
        if of == 'b64':
            return base64.b64encode(concrete_bytes(d['v'])).decode('ascii')
        if of == 'ts':
            return TS_VALUES[d['fmt']][d['v']['id']].strftime(TS_FORMATS[d['fmt']])
        if of == 'tag':
            return d['s']
        if of == 'bad':
            return '!bad!'
        if of == 'nonascii':
            return 'ü\U0001F600ü'
    if k == 'jred':
        return redact_expected(d['red'], untyped_to_py(d['v']))
    if k == 'jarr':
        return [doc_to_json(x) for x in d['items']]
    if k == 'jobj':
        return {key: doc_to_json(x) for key, x in _items(d['m'])}
    raise ValueError(d)


def json_strict_eq(a, b):
    """Equality of parsed JSON that distinguishes bool/int/float."""
    if isinstance(a, bool) or isinstance(b, bool):
        return isinstance(a, bool) and isinstance(b, bool) and a == b
    if isinstance(a, (int, float)) and isinstance(b, (int, float)):
        return type(a) is type(b) and a == b
    if isinstance(a, dict):
        return isinstance(b, dict) and a.keys() == b.keys() and all(json_strict_eq(a[k], b[k]) for k in a)
    if isinstance(a, (list, tuple)):
        return isinstance(b, (list, tuple)) and len(a) == len(b) and all(json_strict_eq(x, y) for x, y in zip(a, b))
    return type(a) is type(b) and a == b


def untyped_to_py(v):
    """Abstract value -> python for the kinds that may sit below a redactor."""
    k = v['k']
    if k == 'none':
        return None
    if k == 'int':
        return INT_ANCHORS[v['r']]
    if k == 'float':
        return FLOAT_ANCHORS[v['r']]
    if k == 'str':
        return concrete_str(v)
    if k == 'bool':
        return v['b']
    if k == 'list':
        return [untyped_to_py(x) for x in v['items']]
    if k == 'map':
        return {key: untyped_to_py(x) for key, x in _items(v['m'])}
    raise ValueError(v)


def redact_expected(red, val):
    """lang_ref "Redaction", written independently of stone_validators: blot -> the mask (or the
    regex groups joined by ***), hash -> md5 of the text (plus the blotted groups)."""
    from stonegen import REDACT_REGEX
    kind, _, rx = red.partition(':')
    regex = REDACT_REGEX[rx] if rx else None
    m = re.search(regex, val) if (regex and isinstance(val, str)) else None
    if kind == 'blot':
        return '***'.join(m.groups()) if m else '********'
    if isinstance(val, bool) or not isinstance(val, (str, int, float)):
        text = None
    else:
        text = val if isinstance(val, str) else str(val)
    hashed = hashlib.md5(text.encode('utf-8')).hexdigest() if text is not None else None
    if m:
        blotted = '***'.join(m.groups())
        return '%s (%s)' % (hashed, blotted) if hashed else blotted
    return hashed

"""C01/C03 judge for StoneLitMC: example literals, route attribute values and doc references against specs_to_ir."""
import json

from runner import Judge
from stonegen import render_schema, render_type, INT_ANCHORS, FLOAT_ANCHORS, fmt_float
from wire import norm_abs

TS_TEXT = '2015-05-12T15:50:38Z'


def render_lit(l):
    k = l['k']
    if k == 'lint':
        return str(INT_ANCHORS[l['r']])
    if k == 'lfloat':
        return fmt_float(FLOAT_ANCHORS[l['r']])
    if k == 'lstr':
        s = 'a' * l['len']
        if not l['ok'] and s:
            s = s[:-1] + 'Z'
        return '"%s"' % s
    if k == 'lbool':
        return 'true' if l['b'] else 'false'
    if k == 'ltag':
        return l['n']
    if k == 'lnull':
        return 'null'
    if k == 'lts':
        return '"%s"' % TS_TEXT
    raise ValueError(l)


def attr_specs(vec):
    schema, decl, l = vec['schema'], vec['decl'], vec['l']
    nsb = dict(render_schema(schema))['nsb.stone']
    if decl['t']['k'] == 'routeunion':
        cfg = 'namespace stone_cfg\n\nunion Route\n    a1\n'
    else:
        inh = vec.get('inh', False)
        line = '    a1 %s' % render_type(decl['t'], 'nsb' if inh else 'stone_cfg', schema)
        if decl['d']['k'] != 'absent':
            line += ' = ' + render_lit(decl['d'])
        if inh:
            # the attribute is declared by a struct of nsb that the schema extends; the schema adds one of its own
            nsb += '\nstruct RouteBase\n%s\n' % line
            cfg = 'namespace stone_cfg\n\nimport nsb\n\nstruct Route extends nsb.RouteBase\n    own String = "o"\n'
        else:
            cfg = 'namespace stone_cfg\n\nimport nsb\n\nstruct Route\n%s\n' % line
    route = 'namespace nsa\n\nroute r1(Void, Void, Void)\n'
    if l['k'] != 'absent':
        route += '    attrs\n        a1 = %s\n' % render_lit(l)
    return [('nsb.stone', nsb), ('stone_cfg.stone', cfg), ('nsa.stone', route)]


VER = {'none': '', '1': ':1', '2': ':2', '0': ':0', 'x': ':x', 'empty': ':'}
OTHER = {'link_ok': 'Stone https://example.com/x', 'link_long': 'The Stone repo https://example.com/x', 'two_words': 'two words',
         'lit_null': 'null', 'lit_true': 'true', 'lit_int': '12', 'lit_float': '-1.5', 'empty': ''}


def payload_text(p):
    if p['kind'] != 'name':
        return OTHER[p['kind']]
    s = (p['ns'] + '.' if p['ns'] else '') + p['head']
    if p['tail']:
        s += '.' + p['tail']
    if p['extra']:
        s += '.x'
    return s + VER[p['ver']]


def docref_specs(vec):
    doc = '"See :%s:`%s` for more."' % (vec['tag'], payload_text(vec['p']))
    site = vec['site']

    def at(s, indent):
        return [' ' * indent + doc] if site == s else []
    nsa = (['namespace nsa', '', 'import nsb', '', 'alias Aa = Sa', '', 'struct Sa'] + at('struct', 4) +
           ['    f1 Int32'] + at('field', 8) + ['    f2 String?', '', 'struct Sb extends Sa', '    g1 Int32', '', 'union Ua', '    t1'] +
           at('tag', 8) + ['    t2 Int32', '', 'route ra(Sa, Void, Void)'] + at('route', 4) + ['', 'route rb:2(Void, Void, Void)', ''])
    return [('nsa.stone', '\n'.join(nsa)),
            ('nsb.stone', 'namespace nsb\n\nstruct Tb\n    h1 Int32\n\nroute rt(Void, Void, Void)\n'),
            ('nsc.stone', 'namespace nsc\n\nstruct Tc\n    k1 Int32\n')]


ANN_TYPES = {'String': 'String', 'Int32': 'Int32', 'Float64': 'Float64', 'Boolean': 'Boolean', 'Bytes': 'Bytes',
             'ListString': 'List(String)', 'MapString': 'Map(String, String)', 'StringN': 'String?', 'Sx': 'Sx', 'ARed': 'ARed',
             'APlain': 'APlain'}


def annot_specs(vec):
    site, ty, anns = vec['site'], ANN_TYPES[vec['ty']], [vec['a1']] + ([vec['a2']] if vec['a2'] != 'none' else [])

    def tags(indent):
        return [' ' * indent + '@' + a for a in anns]
    a = ['namespace nsa', '', 'import nsb', '',
         'annotation Om = Omitted("a")', 'annotation Om2 = Omitted("b")', 'annotation Dep = Deprecated()',
         'annotation Prev = Preview()', 'annotation Blot = RedactedBlot()', 'annotation Hash = RedactedHash()', '',
         'annotation_type Note', '    importance String = "low"', '',
         'annotation Cust = Note()', 'annotation CustKw = Note(importance="x")', '',
         'struct Sx', '    x Int32', '', 'alias ARed = String', '    @Blot', '', 'alias APlain = String', '']
    if site == 'alias':
        a += ['alias Target = %s' % ty] + tags(4) + ['', 'struct Holder', '    h Target?', '']
    elif site == 'field':
        a += ['struct Holder', '    h %s' % ty] + tags(8) + ['']
    else:
        a += ['union Holder', '    v', '    h %s' % ty] + tags(8) + ['']
    return [('nsa.stone', '\n'.join(a)),
            ('nsb.stone', 'namespace nsb\n\nannotation Fo = Omitted("f")\n\nannotation_type TB\n    x String\n\nannotation Cu = TB("q")\n'),
            ('nsc.stone', 'namespace nsc\n\nannotation Nc = Deprecated()\n')]


DEF_ARGS = {'none': '', 'pos_s': '"a"', 'pos_i': '1', 'pos_ii': '1, 2', 'pos_ss': '"a", "b"', 'pos_iii': '1, 2, 3',
            'kw_importance': 'importance="x"', 'kw_xy': 'x=1, y=2', 'kw_x': 'x=1', 'kw_zz': 'zz="x"', 'mixed': '1, y=2'}


def anndef_specs(vec):
    a = ['namespace nsa', '', 'import nsb', '', 'annotation_type Note', '    importance String = "low"', '',
         'annotation_type Pair', '    x Int32', '    y Int32', ''] + (['annotation_type Bad', '    p', ''] if vec['r'] == 'Bad' else []) + [
         'struct Sx', '    x Int32', '',
         'annotation Probe = %s(%s)' % (vec['r'], DEF_ARGS[vec['a']]), '',
         'struct Holder', '    h String'] + (['        @Probe'] if vec.get('used', True) else []) + ['']
    return [('nsa.stone', '\n'.join(a)),
            ('nsb.stone', 'namespace nsb\n\nannotation_type NoteB\n    level Int32 = 1\n'),
            ('nsc.stone', 'namespace nsc\n\nannotation_type NoteC\n    z Int32 = 1\n')]


def badtype_specs(vec):
    site, n = vec['site'], vec['n']
    a = ['namespace nsa', '', 'import nsb'] + (['import stone_cfg'] if n.startswith('stone_cfg') else []) + ['', 'annotation Dep = Deprecated()', '', 'annotation_type Note',
         '    importance String = "low"', '', 'alias Aa = String', '', 'route ra(Void, Void, Void)', '']
    if site == 'field':
        a += ['struct Holder', '    h %s' % n, '']
    elif site == 'field_nullable':
        a += ['struct Holder', '    h %s?' % n, '']
    elif site == 'field_example':
        a += ['struct Holder', '    h %s' % n, '    example default', '        h = %s' % ('default' if n == 'nsb.Tb' else '"x"'), '']
    elif site == 'tag':
        a += ['union Holder', '    v', '    h %s' % n, '']
    elif site == 'alias':
        a += ['alias Holder = %s' % n, '']
    elif site == 'route_arg':
        a += ['route rb(%s, Void, Void)' % n, '']
    elif site == 'list_item':
        a += ['struct Holder', '    h List(%s)' % n, '']
    elif site == 'route_two':
        a += ['route rb(%s, Void)' % n, '']
    elif site == 'route_four':
        a += ['route rb(%s, Void, Void, Void)' % n, '']
    return [('stone_cfg.stone', 'namespace stone_cfg\n\nstruct Route\n    x String = "a"\n'), ('nsa.stone', '\n'.join(a)),
            ('nsb.stone', 'namespace nsb\n\nannotation Fo = Omitted("f")\n\nstruct Tb\n    x Int32\n    example default\n        x = 1\n'),
            ('nsz9.stone', 'namespace nsz9\n\nroute q(Void, Void, Void)\n')]


def attr_value_ok(l, got):
    """does the value the description carries for the attribute equal the written / declared literal l?"""
    k = l['k']
    if k in ('lnull', 'absent'):
        return got is None
    if k == 'lint':
        return type(got) is int and got == INT_ANCHORS[l['r']]
    if k == 'lfloat':
        return isinstance(got, float) and got == FLOAT_ANCHORS[l['r']]
    if k == 'lstr':
        return got == render_lit(l)[1:-1]
    if k == 'lbool':
        return got is l['b']
    if k == 'ltag':
        return getattr(got, 'tag_name', None) == l['n']
    return True         # timestamp text: not judged


def subtype_specs(vec):
    c = vec['c']
    a = ['namespace nsa', '', 'struct Base', '    union', '        s S'] + (['        t T'] if c['listed'] else []) + \
        ['    x Int32', '', 'struct S extends Base', '    y Int32', '']
    b = ['namespace nsb', '', 'import nsa', '', 'struct Other', '    o Int32', '']
    ext = ['struct %s extends %sBase' % (c['name'], '' if c['where'] == 'nsa' else 'nsa.'), '    z Int32', '']
    if c['where'] == 'nsa':
        a += ext
    else:
        b += ext
    return [('nsa.stone', '\n'.join(a)), ('nsb.stone', '\n'.join(b))]


class LitJudge(Judge):
    """params: {'prop': 'C01'|'C03'}"""

    def __init__(self, params):
        super().__init__(params)
        self.prop = params.get('prop', 'C01')
        self.seen = set()

    def on_vec(self, tag, obj):
        if tag != 'VEC':
            return
        key = json.dumps(obj, sort_keys=True)
        if key in self.seen:
            return
        self.seen.add(key)
        from stone.frontend.frontend import specs_to_ir
        from stone.frontend.exception import InvalidSpec
        self.n += 1
        mode = obj['mode']
        if mode == 'exlit':
            a = norm_abs(obj)
            specs = render_schema(a['schema'], examples=a['examples'])
            if a.get('pn', 'Probe') != 'Probe':
                # the probe struct is written with the name of the struct of nsb that its field holds
                specs = [(p_, t_.replace('struct Probe', 'struct ' + a['pn']) if p_ == 'nsa.stone' else t_) for p_, t_ in specs]
            what = 'example f1 = %s for a field of type %s' % (
                [l for l in dict(specs)['nsa.stone'].split('\n') if l.strip().startswith('f1 =')][0].split('=', 1)[1].strip(),
                render_type(a['t'], 'nsa', a['schema']))
        elif mode == 'attr':
            a = norm_abs(obj)
            specs = attr_specs(a)
            what = 'route attribute %s for stone_cfg.Route field `%s`' % (
                'omitted' if a['l']['k'] == 'absent' else 'a1 = ' + render_lit(a['l']),
                dict(specs)['stone_cfg.stone'].strip().split('\n')[-1].strip())
        elif mode == 'docref':
            specs = docref_specs(obj)
            what = 'doc reference :%s:`%s` in the docstring of a %s' % (obj['tag'], payload_text(obj['p']), obj['site'])
        elif mode == 'anndef':
            specs = anndef_specs(obj)
            what = 'annotation definition `annotation Probe = %s(%s)`' % (obj['r'], DEF_ARGS[obj['a']])
        elif mode == 'badtype':
            specs = badtype_specs(obj)
            what = 'the name %s written as the type of a %s' % (obj['n'], obj['site'])
        elif mode == 'subtype':
            specs = subtype_specs(obj)
            what = 'struct %s.%s extending nsa.Base (which lists nsa.S%s)' % (obj['c']['where'], obj['c']['name'], ' and it' if obj['c']['listed'] else ', not it')
        elif mode == 'annot':
            specs = annot_specs(obj)
            what = 'annotation(s) %s on %s of type %s' % (
                ' '.join('@' + x for x in [obj['a1']] + ([obj['a2']] if obj['a2'] != 'none' else [])),
                {'field': 'a struct field', 'tag': 'a union member', 'alias': 'an alias definition'}[obj['site']], ANN_TYPES[obj['ty']])
        else:
            return
        self.judged += 1
        self.count(mode + '_' + obj['verdict'])
        ctx = {'vector': obj, 'specs': specs}
        if self.judged % 1499 == 1:
            self.sample({'case': what, 'documented_verdict': obj['verdict']})
        if self.prop == 'C11' and mode == 'annot' and '.' not in obj['a1'] + obj['a2']:
            return              # file order can only matter where another namespace is involved
        if self.prop == 'C11':
            # the same files in the opposite order: same verdict, same description (incl. computed examples)
            outs = []
            for order in (list(specs), list(reversed(specs))):
                try:
                    api = specs_to_ir([tuple(s) for s in order])
                    from semcheck import project_api, canon
                    ex = {(n.name, d.name): sorted((k, repr(v.value)) for k, v in d.get_examples().items())
                          for n in api.namespaces.values() for d in n.data_types}
                    imps = sorted((n.name, [x.name for x in n.get_imported_namespaces(consider_annotations=True,
                                                                                       consider_annotation_types=True)])
                                  for n in api.namespaces.values())
                    outs.append(('api', canon(sorted(project_api(api), key=lambda x: x['ns'])), repr(sorted(ex.items())),
                                 repr(imps)))
                except InvalidSpec:
                    outs.append(('invalid',))
                except Exception as e:
                    outs.append(('exc', type(e).__name__))
            if outs[0] != outs[1]:
                self.violation('file_order_' + mode, 'file order changes the result (%s vs %s): %s' % (outs[0][0], outs[1][0], what), ctx)
            return
        try:
            api = specs_to_ir([tuple(s) for s in specs])
            out = 'acc'
            if self.prop == 'C02':
                self.judge_attrs(api, norm_abs(obj), what, ctx)
                return
        except InvalidSpec as e:
            out = 'rej'
            if not str(e.msg).strip():
                self.violation(None, 'spec error without a message for %s' % what, ctx)
        except Exception as e:
            self.violation('exc_%s_%s' % (type(e).__name__, mode),
                           'frontend raised %s instead of a spec error: %s; %s' % (type(e).__name__, str(e)[:160], what), ctx)
            return
        if self.prop != 'C01' or obj['verdict'] == 'unspec':
            if obj['verdict'] == 'unspec':
                self.skip('unspecified_' + mode)
            return
        if obj['verdict'] == 'acc' and out == 'rej':
            self.violation('refused_' + mode, 'legal spec refused: %s' % what, ctx)
        elif obj['verdict'] == 'rej' and out == 'acc':
            self.violation('accepted_' + mode, 'spec breaking a documented rule accepted: %s' % what, ctx)


def _judge_attrs(self, api, a, what, ctx):
    """C02: the route of the description carries one value per attribute of the schema (inherited ones included): the
    written value, else the schema default, else null."""
    if a['verdict'] != 'acc':
        self.skip('attr_not_judged_' + a['verdict'])
        return
    route = api.namespaces['nsa'].routes[0]
    decl, l = a['decl'], a['l']
    if decl['t']['k'] == 'routeunion':
        return
    want = ['a1'] + (['own'] if a.get('inh') else [])
    if sorted(route.attrs) != sorted(want):
        self.violation('route_attrs_keys', 'route carries the attributes %s, the schema declares %s: %s'
                       % (sorted(route.attrs), sorted(want), what), ctx)
        return
    exp = l if l['k'] != 'absent' else decl['d']
    if not attr_value_ok(exp, route.attrs['a1']):
        self.violation('route_attr_value', 'route attribute a1 is %r, expected %s: %s'
                       % (route.attrs['a1'], 'null' if exp['k'] in ('absent', 'lnull') else render_lit(exp), what), ctx)
    if a.get('inh') and route.attrs['own'] != 'o':
        self.violation('route_attr_value', 'route attribute own is %r, expected the schema default "o": %s' % (route.attrs['own'], what), ctx)
    self.count('route_attrs_compared')


LitJudge.judge_attrs = _judge_attrs

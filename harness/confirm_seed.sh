#!/bin/sh
# confirm_seed.sh <worktree> <PID> <name>: confirm a seeded change (tests pass with it, demo fails with / passes without) and store it
wt="$1"; pid="$2"; name="$3"
cd "$wt" || exit 2
git diff --quiet -- stone && { echo "no change applied in $wt"; exit 2; }
git diff -- stone > /tmp/confirm_$name.diff
t=$(PYTHONPATH=$wt /venv/bin/python -m pytest -q -p no:cacheprovider --timeout=900 2>&1 | tail -1)
PYTHONPATH=$wt /venv/bin/python demo_$pid.py > /tmp/confirm_$name.with 2>&1; with=$?
git checkout -q -- stone
PYTHONPATH=$wt /venv/bin/python demo_$pid.py > /tmp/confirm_$name.without 2>&1; without=$?
git apply /tmp/confirm_$name.diff
echo "$name: tests: $t | demo with change exit=$with | without exit=$without"
case "$t" in *"189 passed"*) ;; *) echo "TESTS DO NOT PASS"; exit 1;; esac
[ "$with" = 1 ] && [ "$without" = 0 ] || { echo "DEMO NOT DISCRIMINATING"; exit 1; }
d=/verif/seeded/$name; mkdir -p $d
cp /tmp/confirm_$name.diff $d/patch.diff; cp demo_$pid.py $d/demo.py
printf '%s\n' "$t" > $d/tests_tail.txt

"""C08 judge: StoneRuntimeMC transitions replayed on generated classes."""
import datetime
import json

from anchors import INT_ANCHORS, FLOAT_ANCHORS, INT_RANK, FLOAT_RANK
from runner import Judge
import stonegen
from stonegen import Generated, render_schema, render_type, has_not_ok_str
from wire import concrete_bytes, norm_abs, _items

NAIVE = datetime.datetime(2015, 5, 12, 15, 50, 38)
UTC = NAIVE.replace(tzinfo=datetime.timezone.utc)
PLUS1 = NAIVE.replace(tzinfo=datetime.timezone(datetime.timedelta(hours=1)))


class RuntimeJudge(Judge):
    def __init__(self, params):
        super().__init__(params)
        self.gen = None
        from stone.backends.python_rsrc import stone_serializers as ss
        from stone.backends.python_rsrc import stone_validators as bv
        self.ss, self.bv = ss, bv

    def setup(self, obj):
        if self.gen:
            return
        self.schema = schema = obj['schema']
        self.types = obj['types']
        specs = dict(render_schema(schema, extra_refs=self.types))
        extra = ['struct Probe']
        for i, t in enumerate(self.types, 1):
            extra.append('    x%d %s' % (i, render_type(t, 'nsa', schema)))
        extra += ['', 'union Uprobe']
        for i, t in enumerate(self.types, 1):
            extra.append('    x%d %s' % (i, render_type(t, 'nsa', schema)))
        extra.append('')
        for i, t in enumerate(self.types, 1):
            if t['k'] in ('int', 'float', 'str', 'bool'):
                extra.append('route probe%d(%s, Void, Void)' % (i, render_type(t, 'nsa', schema)))
        specs['nsa.stone'] += '\n' + '\n'.join(extra) + '\n'
        self.specs = sorted(specs.items())
        self.gen = Generated(self.specs)
        self.nsa = self.gen.module('nsa')
        self.nsb = self.gen.module('nsb')

    def finish(self):
        if self.gen:
            self.gen.close()
            self.gen = None

    # ------------------------------------------------------------------ values
    def instance(self, c):
        nsa, nsb = self.nsa, self.nsb
        if c == 'S':
            return nsa.S(f1=-2)
        if c == 'C':
            return nsa.C(f1=-2)
        if c == 'L':
            return nsb.L(l1=-2)
        if c == 'P':
            return nsa.P(p1=-2)
        if c == 'Q':
            return nsa.Q(p1=-2)
        if c == 'K':
            return nsb.K.red
        if c == 'U':
            return nsa.U.tv
        if c == 'V':
            return nsa.V.tw
        raise KeyError(c)

    def to_py(self, v):
        k = v['k']
        if k == 'none':
            return None
        if k == 'int':
            return INT_ANCHORS[v['r']]
        if k == 'bool':
            return v['b']
        if k == 'float':
            return FLOAT_ANCHORS[v['r']]
        if k == 'fspecial':
            return {'nan': float('nan'), 'inf': float('inf'), 'ninf': float('-inf')}[v['w']]
        if k == 'bigint':
            return 10 ** 400
        if k == 'str':
            return stonegen.concrete_str(v)
        if k == 'bytes':
            return concrete_bytes(v)
        if k == 'dt':
            return {'naive': NAIVE, 'utc': UTC, 'plus1': PLUS1}[v['tz']]
        if k == 'date':
            return datetime.date(2015, 5, 12)
        if k == 'list':
            return [self.to_py(x) for x in v['items']]
        if k == 'tuple':
            return tuple(self.to_py(x) for x in v['items'])
        if k == 'map':
            return {key: self.to_py(x) for key, x in _items(v['m'])}
        if k == 'obj':
            return self.instance(v['c'])
        if k == 'memoryview':
            return memoryview(b'ab')
        if k == 'range':
            return range(v['n'])
        if k == 'bytearray':
            return bytearray(b'\x01\x02')
        if k == 'set':
            return set(range(v['n']))
        if k == 'intdict':
            return {i: i for i in range(v['n'])}
        raise ValueError(v)

    def eq_norm(self, expected, got, lenient_seq=False):
        """Is python value `got` the rendering of abstract `expected` (normalised form)?"""
        k = expected['k']
        if k == 'none':
            return got is None
        if k == 'int':
            return type(got) is int and got == INT_ANCHORS[expected['r']]
        if k == 'float':
            want = FLOAT_ANCHORS[expected['r']]
            if lenient_seq:
                return isinstance(got, (int, float)) and not isinstance(got, bool) and got == want
            return type(got) is float and got == want
        if k == 'bool':
            return got is expected['b']
        if k == 'str':
            return type(got) is str and got == stonegen.concrete_str(expected)
        if k == 'bytes':
            return type(got) is bytes and got == concrete_bytes(expected)
        if k == 'dt':
            return got == {'naive': NAIVE, 'utc': UTC, 'plus1': PLUS1}[expected['tz']] and \
                (got.tzinfo is None) == (expected['tz'] == 'naive')
        if k in ('list', 'tuple'):
            ok_type = isinstance(got, (list, tuple)) if lenient_seq else type(got) is list
            return ok_type and len(got) == len(expected['items']) and \
                all(self.eq_norm(e, g, lenient_seq) for e, g in zip(expected['items'], got))
        if k == 'map':
            items = dict(_items(expected['m']))
            return type(got) is dict and got.keys() == items.keys() and \
                all(self.eq_norm(items[key], got[key], lenient_seq) for key in items)
        if k == 'obj':
            return type(got).__name__ == expected['c'] and got == self.instance(expected['c'])
        return False

    # ------------------------------------------------------------------ vectors
    def on_vec(self, tag, obj):
        if tag != 'VEC':
            return
        obj = norm_abs(obj)
        if obj['phase'] == 'schema':
            self.setup(obj)
            return
        self.on_case(obj)
        if has_not_ok_str(obj['last'].get('arg')):
            # the same case with the other way of failing a pattern: a full match followed by a line feed
            stonegen.NOT_OK_TAIL = '\n'
            try:
                self.on_case(obj)
            finally:
                stonegen.NOT_OK_TAIL = 'Z'

    def on_case(self, obj):
        self.n += 1
        bv = self.bv
        ti = obj['ti']
        t = self.types[ti - 1]
        fname = 'x%d' % ti
        last = obj['last']
        ctx = {'vector': obj, 'type': t, 'schema': self.schema, 'types': self.types}
        op = last['op']
        if op in ('set', 'get', 'del'):
            o = self.nsa.Probe()
            if obj['prev']['k'] != 'notset':
                try:
                    setattr(o, fname, self.to_py(obj['prev']))
                except Exception as e:
                    self.violation(None, 'assigning the accepted value %s to a field of type %s raised %s: %s'
                                   % (json.dumps(obj['prev']), json.dumps(t), type(e).__name__, e), ctx)
                    return
        verdict = last['verdict']
        if op == 'set':
            arg = self.to_py(last['arg'])
            out = self.attempt(lambda: setattr(o, fname, arg), ctx, 'assignment')
            if out is None:
                return
            if not self.judge_verdict(verdict, out, 'assigning %r to a field of type %s' % (arg, render_type(t, 'nsa', self.schema)), ctx):
                return
            if verdict != 'unspec':
                self.readback(o, fname, obj['slot'], t, ctx)
        elif op == 'get':
            self.judged += 1
            self.readback(o, fname, last['out'] if last['out']['k'] != 'attrerr' else {'k': 'notset'}, t, ctx,
                          nullable_none=(last['out']['k'] == 'none'))
        elif op == 'del':
            self.judged += 1
            try:
                delattr(o, fname)
            except Exception as e:
                self.violation(None, 'deleting a set attribute raised %s: %s' % (type(e).__name__, e), ctx)
                return
            self.readback(o, fname, obj['slot'], t, ctx)
        elif op == 'make':
            arg = self.to_py(last['arg'])
            holder = {}

            def make():
                holder['u'] = getattr(self.nsa.Uprobe, fname)(arg)
            out = self.attempt(make, ctx, 'union construction')
            if out is None:
                return
            if not self.judge_verdict(verdict, out, 'constructing union member of type %s with %r'
                                      % (render_type(t, 'nsa', self.schema), arg), ctx):
                return
            if verdict == 'acc':
                u = holder['u']
                got = getattr(u, 'get_' + fname)()
                if not getattr(u, 'is_' + fname)():
                    self.violation(None, 'is_%s() false on a freshly constructed member' % fname, ctx)
                if not self.eq_norm(last['arg'] if last['arg']['k'] != 'tuple' else last['arg'], got, lenient_seq=True):
                    self.violation(None, 'union member reads back %r, constructed with %r' % (got, arg), ctx)
        elif op == 'decode':
            arg = self.to_py(last['arg'])
            val = getattr(self.nsa, 'probe%d' % ti).arg_type
            holder = {}

            def dec():
                holder['v'] = self.ss.json_compat_obj_decode(val, arg)
            out = self.attempt(dec, ctx, 'decoding a primitive')
            if out is None:
                return
            if not self.judge_verdict(verdict, out, 'decoding %r as %s' % (arg, render_type(t, 'nsa', self.schema)), ctx):
                return
            if verdict == 'acc':
                exp = last['arg']
                if t['k'] == 'float' and exp['k'] == 'int':
                    from anchors import INT_TO_FLOAT
                    exp = {'k': 'float', 'r': INT_TO_FLOAT[exp['r']]}
                if not self.eq_norm(exp, holder['v'], lenient_seq=True):
                    self.violation(None, 'decoded primitive %r differs from %r' % (holder['v'], arg), ctx)

    def attempt(self, f, ctx, what):
        try:
            f()
            return 'ok'
        except self.bv.ValidationError:
            return 'verr'
        except Exception as e:
            self.violation('exc_' + type(e).__name__, '%s raised %s instead of ValidationError: %s'
                           % (what, type(e).__name__, e), ctx)
            return None

    def judge_verdict(self, verdict, out, what, ctx):
        if verdict == 'unspec':
            self.skip('unspecified')
            return True
        self.judged += 1
        if self.judged % 4999 == 1:
            self.sample({'what': what, 'expected': verdict})
        self.count('must_accept' if verdict == 'acc' else 'must_refuse')
        if verdict == 'acc' and out != 'ok':
            self.violation(None, 'refused although the value satisfies the declared type: ' + what, ctx)
            return False
        if verdict == 'rej' and out != 'verr':
            self.violation(None, 'accepted although the value does not satisfy the declared type: ' + what, ctx)
            return False
        return True

    def readback(self, o, fname, slot, t, ctx, nullable_none=False):
        try:
            got = getattr(o, fname)
            have = True
        except AttributeError:
            have = False
        except Exception as e:
            self.violation(None, 'reading the attribute raised %s: %s' % (type(e).__name__, e), ctx)
            return
        if slot['k'] == 'notset':
            from wire import unalias
            nullable = unalias(self.schema, t)['k'] == 'nullable'
            if nullable:
                if not have or got is not None:
                    self.violation(None, 'unset nullable field does not read as None', ctx)
            elif have:
                self.violation(None, 'unset required field reads %r instead of raising AttributeError' % (got,), ctx)
            return
        if not have:
            self.violation(None, 'field holding %s raises AttributeError' % json.dumps(slot), ctx)
        elif not self.eq_norm(slot, got):
            self.violation(None, 'field reads back %r, expected the normalised %s' % (got, json.dumps(slot)), ctx)

"""render: abstract schema (as emitted by the TLA+ specs) -> .stone text -> real stone -> generated code."""
import importlib
import itertools
import os
import shutil
import sys
import tempfile

from anchors import INT_ANCHORS, FLOAT_ANCHORS, UNSET

# p1: the FIRST alternative matches only a proper prefix of every text longer than one character, so a whole-text match
# exists only through the second alternative (a matcher that commits to the leftmost alternative misses it)
# p0: a pattern argument that is given but empty
PATTERNS = {'p1': '[a-cé\U0001F642]|[a-cé\U0001F642 ]+', 'p2': '[0-9]*', 'p0': ''}
TS_FORMATS = {'f1': '%Y-%m-%dT%H:%M:%SZ', 'f2': '%Y-%m-%d', 'f3': '%Y-%m-%dT%H:%M:%S.%fZ'}      # f3 carries fractions of a second


def fmt_float(x):
    r = repr(float(x))
    if 'e' in r or 'E' in r:
        # stone float literals: -? digits . digits (E int)?   -> use plain E notation
        mant, exp = r.lower().split('e')
        if '.' not in mant:
            mant += '.0'
        return '%se%d' % (mant, int(exp))
    return r


def render_type(t, cur_ns, schema):
    k = t['k']
    if k == 'int' or k == 'float':
        tbl = INT_ANCHORS if k == 'int' else FLOAT_ANCHORS
        args = []
        if t['lo'] != UNSET:
            v = tbl[t['lo']]
            args.append('min_value=%s' % (v if k == 'int' else fmt_float(v)))
        if t['hi'] != UNSET:
            v = tbl[t['hi']]
            args.append('max_value=%s' % (v if k == 'int' else fmt_float(v)))
        return t['p'] + ('(%s)' % ', '.join(args) if args else '')
    if k == 'str':
        args = []
        if t['min'] != UNSET:
            args.append('min_length=%d' % t['min'])
        if t['max'] != UNSET:
            args.append('max_length=%d' % t['max'])
        if t['pat']:
            args.append('pattern="%s"' % PATTERNS[t['pat']])
        return 'String' + ('(%s)' % ', '.join(args) if args else '')
    if k == 'bytes':
        assert t['min'] == UNSET and t['max'] == UNSET
        return 'Bytes'
    if k == 'bool':
        return 'Boolean'
    if k == 'ts':
        return 'Timestamp("%s")' % TS_FORMATS[t['fmt']]
    if k == 'void':
        return 'Void'
    if k == 'list':
        args = [render_type(t['e'], cur_ns, schema)]
        if t['min'] != UNSET:
            args.append('min_items=%d' % t['min'])
        if t['max'] != UNSET:
            args.append('max_items=%d' % t['max'])
        return 'List(%s)' % ', '.join(args)
    if k == 'map':
        return 'Map(String, %s)' % render_type(t['v'], cur_ns, schema)
    if k == 'nullable':
        return render_type(t['e'], cur_ns, schema) + '?'
    if k == 'ref':
        ns = schema[t['n']]['ns']
        return t['n'] if ns == cur_ns else '%s.%s' % (ns, t['n'])
    raise ValueError(t)


def render_literal(v):
    k = v['k']
    if k == 'int':
        return str(INT_ANCHORS[v['r']])
    if k == 'float':
        return fmt_float(FLOAT_ANCHORS[v['r']])
    if k == 'bool':
        return 'true' if v['b'] else 'false'
    if k == 'str':
        return '"%s"' % concrete_str(v)
    if k == 'union':
        return v['tag']
    if k == 'none':
        return 'null'
    if k == 'bytes':
        return '"%s"' % ('a' * v['len'])            # a Bytes default is written as text
    raise ValueError(v)


def render_default(t, v, schema):
    """A default literal for a field of type t (timestamps are written in the field's format)."""
    if v['k'] == 'ts':
        import datetime
        while t['k'] == 'ref' and schema[t['n']]['k'] == 'alias':
            t = schema[t['n']]['t']
        vals = [datetime.datetime(2015, 5, 12, 15, 50, 38), datetime.datetime(1999, 12, 31, 23, 59, 59)]
        return '"%s"' % vals[v['id']].strftime(TS_FORMATS[t['fmt']])
    return render_literal(v)


NOT_OK_TAIL = 'Z'


def has_not_ok_str(x):
    """Does the abstract value / document contain a text that fails its pattern?"""
    if isinstance(x, dict):
        if x.get('k') == 'str' and x.get('ok') is False and x.get('len', 0) > 0:
            return True
        return any(has_not_ok_str(v) for v in x.values())
    if isinstance(x, list):
        return any(has_not_ok_str(v) for v in x)
    return False


def concrete_str(v):
    n = v['len']
    if n == 0:
        return ''
    if v['u'] >= 2:
        # sentinel text: occurs only below a redactor (C13)
        return (('se%dcret%d' % (v['u'], v['u'])) + 'x' * n)[:n]
    ch = 'é' if v['u'] == 1 else 'a'
    s = ch * n
    if n >= 3:
        s = s[0] + ' ' + s[2:]          # texts of three or more characters contain a space
    if not v['ok']:
        # a text that does not match the declared pattern: ends in a character outside it.  NOT_OK_TAIL is 'Z' or a
        # line feed (a full match followed by a single line feed is still not a match of the whole text)
        s = s[:-1] + NOT_OK_TAIL
    return s


def referenced_namespaces(obj, schema, acc):
    if isinstance(obj, dict):
        if obj.get('k') == 'ref' and 'n' in obj and obj['n'] in schema:
            acc.add(schema[obj['n']]['ns'])
        for v in obj.values():
            referenced_namespaces(v, schema, acc)
    elif isinstance(obj, list):
        for v in obj:
            referenced_namespaces(v, schema, acc)


def render_schema(schema, roots=(), route_ns=None, annotations=None, patched=None, extra_refs=(), examples=None,
                  reverse_defs=False):
    """schema: name -> def.  Returns list of (filename, text), one file per namespace.

    roots: type expressions; each becomes `route probe<i>(T, Void, Void)` in route_ns so that
    its validator is built by the generated code (generate_validator_constructor)."""
    patched = patched or {}
    nss = []
    for d in schema.values():
        if d['ns'] not in nss:
            nss.append(d['ns'])
    if route_ns is None and nss:
        route_ns = 'nsa' if 'nsa' in nss else nss[0]
    out = []
    for ns in sorted(nss):
        lines = ['namespace %s' % ns, '']
        refs = set()
        for n, d in schema.items():
            if d['ns'] == ns:
                referenced_namespaces(d, schema, refs)
                if d.get('parent'):
                    refs.add(schema[d['parent']]['ns'])
                for s in d.get('subs', []):
                    refs.add(schema[s['sub']]['ns'])
        if ns == route_ns:
            referenced_namespaces(list(roots), schema, refs)
            referenced_namespaces(list(extra_refs), schema, refs)
        for r in sorted(refs - {ns}):
            lines.append('import %s' % r)
        lines.append('')
        ann_needed = {}
        for n, d in schema.items():
            if d['ns'] != ns:
                continue
            for f in d.get('fields', []) + d.get('tags', []):
                if f.get('omit'):
                    ann_needed['Omit_' + f['omit']] = 'Omitted("%s")' % f['omit']
                if f.get('red'):
                    ann_needed[ann_name(f['red'])] = ann_def(f['red'])
            if d['k'] == 'alias' and d.get('red'):
                ann_needed[ann_name(d['red'])] = ann_def(d['red'])
        for a in sorted(ann_needed):
            lines.append('annotation %s = %s' % (a, ann_needed[a]))
        lines.append('')
        for n, d in (reversed(list(schema.items())) if reverse_defs else schema.items()):
            if d['ns'] != ns:
                continue
            if d['k'] == 'alias':
                lines.append('alias %s = %s' % (n, render_type(d['t'], ns, schema)))
                if d.get('red'):
                    lines.append('    @%s' % ann_name(d['red']))
            elif d['k'] == 'struct':
                hdr = 'struct %s' % n
                if d['parent']:
                    pns = schema[d['parent']]['ns']
                    hdr += ' extends ' + (d['parent'] if pns == ns else pns + '.' + d['parent'])
                lines.append(hdr)
                body = []
                if d['subs']:
                    body.append('    union' if d['catchall'] else '    union_closed')
                    for s in d['subs']:
                        sns = schema[s['sub']]['ns']
                        body.append('        %s %s' % (s['tag'], s['sub'] if sns == ns else sns + '.' + s['sub']))
                for f in d['fields']:
                    if f['n'] in patched.get(n, ()):
                        continue
                    line = '    %s %s' % (f['n'], render_type(f['t'], ns, schema))
                    if f['d']['k'] != 'nodefault':
                        line += ' = ' + render_default(f['t'], f['d'], schema)
                    body.append(line)
                    if f.get('omit'):
                        body.append('        @Omit_%s' % f['omit'])
                    if f.get('red'):
                        body.append('        @%s' % ann_name(f['red']))
                if not body:
                    body.append('    "no fields"')
                lines += body
                lines += render_examples((examples or {}).get(n))
            elif d['k'] == 'union':
                hdr = ('union_closed ' if d['closed'] else 'union ') + n
                if d['parent']:
                    pns = schema[d['parent']]['ns']
                    hdr += ' extends ' + (d['parent'] if pns == ns else pns + '.' + d['parent'])
                lines.append(hdr)
                body = []
                for t in d['tags']:
                    if t['t']['k'] == 'void':
                        body.append('    %s' % t['n'])
                    else:
                        body.append('    %s %s' % (t['n'], render_type(t['t'], ns, schema)))
                    if t.get('omit'):
                        body.append('        @Omit_%s' % t['omit'])
                    if t.get('red'):
                        body.append('        @%s' % ann_name(t['red']))
                if not body:
                    body.append('    "no tags"')
                lines += body
                lines += render_examples((examples or {}).get(n))
            lines.append('')
        if ns == route_ns:
            for i, r in enumerate(roots):
                lines.append('route probe%d(%s, Void, Void)' % (i, render_type(r, ns, schema)))
                lines.append('')
        out.append(('%s.stone' % ns, '\n'.join(lines) + '\n'))
        # patched-in fields live in a second file of the namespace
        plines = []
        for n, names in patched.items():
            d = schema[n]
            if d['ns'] != ns or not names:
                continue
            plines.append('patch struct %s' % n)
            for f in d['fields']:
                if f['n'] not in names:
                    continue
                plines.append('    %s %s' % (f['n'], render_type(f['t'], ns, schema)))
                if f.get('omit'):
                    plines.append('        @Omit_%s' % f['omit'])
                if f.get('red'):
                    plines.append('        @%s' % ann_name(f['red']))
            plines.append('')
        if plines:
            hdr = ['namespace %s' % ns, ''] + ['import %s' % r for r in sorted(refs - {ns})] + ['']
            hdr += ['annotation %s = %s' % (a, ann_needed[a]) for a in sorted(ann_needed)]
            # annotations are namespace-wide: defined once, in the first file
            hdr = ['namespace %s' % ns, ''] + ['import %s' % r for r in sorted(refs - {ns})] + ['']
            out.append(('%s_patch.stone' % ns, '\n'.join(hdr + plines) + '\n'))
    return apply_written(out, schema)


# Names as they are WRITTEN in the spec text (model name -> written name).  Model names are unique across namespaces; Stone
# only requires a name to be unique within its namespace, so a judge may ask for namesakes (e.g. nsa.R written `L` next to
# nsb.L).  Applied to the rendered text: unqualified occurrences in the type's own namespace, qualified ones elsewhere.
WRITTEN = {}


def written(n):
    return WRITTEN.get(n, n)


def apply_written(files, schema):
    if not WRITTEN:
        return files
    import re
    out = []
    for fname, text in files:
        ns = fname.split('.')[0].split('_patch')[0]
        for m, w in WRITTEN.items():
            if m not in schema:
                continue
            mns = schema[m]['ns']
            if mns == ns:
                text = re.sub(r'(?<![\w.])%s\b' % re.escape(m), w, text)
            text = re.sub(r'\b%s\.%s\b' % (re.escape(mns), re.escape(m)), '%s.%s' % (mns, w), text)
        out.append((fname, text))
    return out


def ann_name(red):
    # red: 'blot' | 'hash' | 'blot:<regexid>' | 'hash:<regexid>'
    return 'Red_' + red.replace(':', '_')


REDACT_REGEX = {'r1': '^(s)e'}


def ann_def(red):
    kind, _, rx = red.partition(':')
    cls = 'RedactedBlot' if kind == 'blot' else 'RedactedHash'
    return '%s(%s)' % (cls, ('"%s"' % REDACT_REGEX[rx]) if rx else '')


_counter = itertools.count()


class Generated:
    """A generated Python package imported in-process under a unique name."""

    def __init__(self, specs, backend='python_types', extra_args=(), api=None, **ir_kwargs):
        from stone.frontend.frontend import specs_to_ir
        from stone.compiler import Compiler
        self.specs = specs
        self.api = api if api is not None else specs_to_ir(list(specs), **ir_kwargs)
        self.tmp = tempfile.mkdtemp(prefix='verif-gen-')
        self.pkg = 'vpk%d_%d' % (os.getpid(), next(_counter))
        out = os.path.join(self.tmp, self.pkg)
        mod = importlib.import_module('stone.backends.' + backend)
        Compiler(self.api, mod, ['-p', self.pkg] + list(extra_args), out).build()
        sys.path.insert(0, self.tmp)
        importlib.invalidate_caches()

    def module(self, ns):
        return importlib.import_module('%s.%s' % (self.pkg, ns))

    def close(self):
        for k in [k for k in sys.modules if k == self.pkg or k.startswith(self.pkg + '.')]:
            del sys.modules[k]
        try:
            sys.path.remove(self.tmp)
        except ValueError:
            pass
        shutil.rmtree(self.tmp, ignore_errors=True)


def render_exval(x):
    k = x['k']
    if k == 'null':
        return 'null'
    if k == 'ref':
        return x['label']
    if k == 'list':
        return '[%s]' % ', '.join(render_exval(i) for i in (x['items'] if isinstance(x['items'], list) else []))
    if k == 'map':
        m = x['m'] if isinstance(x['m'], dict) else {}
        return '{%s}' % ', '.join('"%s": %s' % (key, render_exval(v)) for key, v in m.items())
    v = x['v']
    if v['k'] == 'ts':
        import datetime
        vals = [datetime.datetime(2015, 5, 12, 15, 50, 38), datetime.datetime(1999, 12, 31, 23, 59, 59)]
        return '"%s"' % vals[v['id']].strftime(TS_FORMATS['f1'])
    return render_literal(v)


def render_examples(exs):
    out = []
    for e in (exs if isinstance(exs, list) else []):
        out.append('    example %s' % e['label'])
        assigns = e['assigns'] if isinstance(e['assigns'], dict) else {}
        for fn, x in assigns.items():
            out.append('        %s = %s' % (fn, render_exval(x)))
    return out

"""Anchor tables shared with specs/StoneAnchors.tla (order-abstracted numbers)."""
INT_ANCHORS = [
    -2**63 - 1, -2**63, -2**63 + 1, -2**31 - 1, -2**31, -2**31 + 1,
    -3, -2, -1, 0, 1, 2, 3, 4,
    2**31 - 2, 2**31 - 1, 2**31, 2**32 - 2, 2**32 - 1, 2**32,
    2**63 - 2, 2**63 - 1, 2**63, 2**64 - 2, 2**64 - 1, 2**64,
]
FLOAT_ANCHORS = [
    -1e39, -3.40282e38, -1e10, -3.0, -2.0, -1.5, -1.0, -0.5, 0.0, 0.5,
    1.0, 1.5, 2.0, 3.0, 4.0, 1e10, 3.40282e38, 1e39,
]
INT_RANK = {v: i for i, v in enumerate(INT_ANCHORS)}
FLOAT_RANK = {v: i for i, v in enumerate(FLOAT_ANCHORS)}
assert INT_ANCHORS == sorted(INT_ANCHORS) and FLOAT_ANCHORS == sorted(FLOAT_ANCHORS)
INT_LIMITS = {'Int32': (4, 15), 'UInt32': (9, 18), 'Int64': (1, 21), 'UInt64': (9, 24)}
FLOAT_LIMITS = {'Float32': (1, 16), 'Float64': (0, 17)}
assert INT_ANCHORS[4] == -2**31 and INT_ANCHORS[15] == 2**31 - 1
assert INT_ANCHORS[9] == 0 and INT_ANCHORS[18] == 2**32 - 1
assert INT_ANCHORS[1] == -2**63 and INT_ANCHORS[21] == 2**63 - 1 and INT_ANCHORS[24] == 2**64 - 1
INT_TO_FLOAT = {6: 3, 7: 4, 8: 6, 9: 8, 10: 10, 11: 12, 12: 13, 13: 14}
for _i, _f in INT_TO_FLOAT.items():
    assert float(INT_ANCHORS[_i]) == FLOAT_ANCHORS[_f]
UNSET = -1

"""Running TLC: exhaustive checks, sharded vector emission, trace validation.

All scratch output goes to a temporary directory that is removed before return.
"""
import json
import os
import re
import shutil
import subprocess
import sys
import tempfile
import time

SPECS = os.path.join(os.path.dirname(os.path.dirname(os.path.abspath(__file__))), 'specs')
JAR_CP = '/opt/veriftools/tla/tla2tools.jar:/opt/veriftools/tla/CommunityModules-deps.jar'


class TlcFailure(Exception):
    """TLC itself failed (parse error, crash, timeout): machinery failure, exit 2."""


def _fmt_const(v):
    if isinstance(v, bool):
        return 'TRUE' if v else 'FALSE'
    if isinstance(v, int):
        return str(v)
    if isinstance(v, str):
        return v  # already TLA+ syntax (e.g. '"abc"' or '{"a","b"}')
    raise TypeError(v)


def write_cfg(path, spec='Spec', constants=None, invariants=(), constraints=(),
              properties=(), postcondition=None, deadlock=False, init_next=None, view=None,
              action_constraints=()):
    lines = []
    if init_next:
        lines += ['INIT %s' % init_next[0], 'NEXT %s' % init_next[1]]
    else:
        lines.append('SPECIFICATION %s' % spec)
    if constants:
        lines.append('CONSTANTS')
        for k, v in constants.items():
            lines.append('  %s = %s' % (k, _fmt_const(v)))
    for i in invariants:
        lines.append('INVARIANT %s' % i)
    for p in properties:
        lines.append('PROPERTY %s' % p)
    for c in constraints:
        lines.append('CONSTRAINT %s' % c)
    for c in action_constraints:
        lines.append('ACTION_CONSTRAINT %s' % c)
    if view:
        lines.append('VIEW %s' % view)
    if postcondition:
        lines.append('POSTCONDITION %s' % postcondition)
    lines.append('CHECK_DEADLOCK %s' % ('TRUE' if deadlock else 'FALSE'))
    with open(path, 'w') as f:
        f.write('\n'.join(lines) + '\n')


_RE_STATES = re.compile(r'^(\d+) states generated, (\d+) distinct states found, (\d+) states left on queue')
_RE_SIM = re.compile(r'^Progress: (\d+) states checked, (\d+) traces generated')
_RE_DEPTH = re.compile(r'^The depth of the complete state graph search is (\d+)')
_RE_INV = re.compile(r'^Error: Invariant (\S+) is violated')
_RE_COV = re.compile(r'^<(\w+) line (\d+), col (\d+) to line (\d+), col (\d+) of module (\w+)>: (\d+):(\d+)')


def decode_vec(line):
    """<<"TAG", "json...">> printed by PrintT -> (tag, obj); None if not a vector line."""
    if not line.startswith('<<"'):
        return None
    try:
        i = line.index('", "')
        tag = line[3:i]
        inner = line[i + 3:line.rindex('>>')]
        return tag, json.loads(json.loads(inner))
    except (ValueError, json.JSONDecodeError):
        return None


class TlcResult(dict):
    pass


def run(module, cfg_kwargs, workers=1, on_vec=None, timeout=3600, simulate=None, depth=None,
        seed=None, coverage=False, env_extra=None, heap='3g', extra_args=(), keep_output=False,
        dfs=False):
    """Run TLC once.  on_vec(tag, obj) is called for every PrintT vector line (streamed).

    Returns TlcResult(states, distinct, depth, violated=[invariant...], ok, errors, coverage, wall_s, tail).
    Raises TlcFailure on anything that is not a clean pass or an invariant/property violation.
    """
    tmp = tempfile.mkdtemp(prefix='verif-tlc-')
    try:
        cfg = os.path.join(tmp, 'run.cfg')
        write_cfg(cfg, **cfg_kwargs)
        cmd = ['java', '-XX:+UseSerialGC' if workers == 1 else '-XX:+UseParallelGC', '-Xmx' + heap, '-Xss16m']
        if workers == 1:
            cmd += ['-Xms64m', '-XX:ActiveProcessorCount=1']
        if dfs:
            cmd.append('-Dtlc2.tool.queue.IStateQueue=StateDeque')
        cmd += ['-cp', JAR_CP, 'tlc2.TLC', '-workers', str(workers),
                '-metadir', os.path.join(tmp, 'meta'), '-noGenerateSpecTE', '-config', cfg]
        if simulate:
            cmd += ['-simulate', simulate]
        if depth:
            cmd += ['-depth', str(depth)]
        if seed is not None:
            cmd += ['-seed', str(seed)]
        if coverage:
            cmd += ['-coverage', '1']
        cmd += list(extra_args)
        cmd.append(os.path.join(SPECS, module + '.tla'))
        env = dict(os.environ)
        env.pop('JAVA_TOOL_OPTIONS', None)
        if env_extra:
            env.update(env_extra)
        t0 = time.time()
        proc = subprocess.Popen(cmd, stdout=subprocess.PIPE, stderr=subprocess.STDOUT, env=env,
                                cwd=tmp, text=True, bufsize=1 << 20)
        res = TlcResult(states=0, distinct=0, depth=0, violated=[], ok=False, errors=[],
                        coverage={}, traces=0)
        tail = []
        out_all = [] if keep_output else None
        timed_out = []
        import threading

        def _kill():
            timed_out.append(1)
            proc.kill()
        timer = threading.Timer(timeout, _kill)
        timer.daemon = True
        timer.start()
        try:
            for line in proc.stdout:
                line = line.rstrip('\n')
                if line.startswith('<<"'):
                    v = decode_vec(line)
                    if v is not None:
                        if on_vec:
                            on_vec(v[0], v[1])
                        continue
                if out_all is not None:
                    out_all.append(line)
                tail.append(line)
                if len(tail) > 60:
                    tail.pop(0)
                m = _RE_STATES.match(line)
                if m:
                    res['states'], res['distinct'] = int(m.group(1)), int(m.group(2))
                    continue
                m = _RE_SIM.match(line)
                if m:
                    res['states'], res['traces'] = int(m.group(1)), int(m.group(2))
                    continue
                m = _RE_DEPTH.match(line)
                if m:
                    res['depth'] = int(m.group(1))
                    continue
                m = _RE_INV.match(line)
                if m:
                    res['violated'].append(m.group(1))
                    continue
                if line.startswith('Error:'):
                    res['errors'].append(line)
                if 'No error has been found' in line:
                    res['ok'] = True
                m = _RE_COV.match(line)
                if m:
                    res['coverage'][m.group(1)] = (int(m.group(7)), int(m.group(8)))
            proc.wait()
        finally:
            timer.cancel()
            if proc.poll() is None:
                proc.kill()
        if timed_out:
            raise TlcFailure('TLC timeout after %ss: %s' % (timeout, module))
        res['wall_s'] = time.time() - t0
        res['tail'] = tail
        if out_all is not None:
            res['output'] = out_all
        res['returncode'] = proc.returncode
        if not res['ok'] and not res['violated']:
            # property violation / postcondition / genuine failure
            if any('Postcondition' in e and 'is false' in e for e in res['errors']):
                res['violated'].append('postcondition')
            elif any('Temporal properties were violated' in e or 'Action property' in e or
                     'is violated' in e for e in res['errors']):
                res['violated'].append('property')
            elif simulate and proc.returncode == 0:
                res['ok'] = True
            else:
                raise TlcFailure('TLC failed on %s (rc=%s):\n%s' % (module, proc.returncode, '\n'.join(tail[-40:])))
        return res
    finally:
        shutil.rmtree(tmp, ignore_errors=True)


def sany(module):
    cmd = ['java', '-cp', JAR_CP, 'tla2sany.SANY', os.path.join(SPECS, module + '.tla')]
    p = subprocess.run(cmd, capture_output=True, text=True, cwd=SPECS)
    ok = p.returncode == 0 and 'Semantic errors' not in p.stdout and 'Parse Error' not in p.stdout \
        and '*** Errors' not in p.stdout
    return ok, p.stdout + p.stderr


if __name__ == '__main__':
    bad = 0
    for f in sorted(os.listdir(SPECS)):
        if f.endswith('.tla'):
            ok, out = sany(f[:-4])
            print(('ok   ' if ok else 'FAIL ') + f)
            if not ok:
                bad += 1
                print(out[-3000:])
    sys.exit(1 if bad else 0)

"""Judges for the StoneWire vectors: C04 (round trip), C05 (wire format), C06 (decoder)."""
import json

from runner import Judge
import stonegen
from stonegen import Generated, render_schema
from wire import Binder, Unprojectable, doc_to_json, json_strict_eq, norm_abs


class WireJudge(Judge):
    """params: {'prop': 'C04'|'C05'|'C06'}"""

    def __init__(self, params):
        super().__init__(params)
        self.prop = params['prop']
        self.ctxs = {}
        # the subtype R of nsa is WRITTEN `L`, like the struct L of nsb that its field r1 holds: two classes of one name
        # in one value (Stone requires a name to be unique within its namespace only)
        import stonegen
        stonegen.WRITTEN = {'R': 'L'}
        from stone.backends.python_rsrc import stone_serializers as ss
        from stone.backends.python_rsrc import stone_validators as bv
        self.ss = ss
        self.bv = bv

    # -------------------------------------------------------------- schema
    def setup(self, obj):
        schema, roots = obj['schema'], obj['roots']
        gen = Generated(render_schema(schema, roots))
        nsa = gen.module('nsa')
        self.ctxs[obj['cfg']] = {
            'schema': schema, 'roots': roots, 'gen': gen, 'binder': Binder(schema, gen),
            'validators': [getattr(nsa, 'probe%d' % i).arg_type for i in range(len(roots))]}

    def select(self, cfg):
        c = self.ctxs[cfg]
        self.schema, self.roots, self.binder, self.validators = \
            c['schema'], c['roots'], c['binder'], c['validators']

    def validator_for(self, root):
        return self.validators[self.roots.index(root)]

    def finish(self):
        for c in self.ctxs.values():
            c['gen'].close()
        self.ctxs = {}

    def ctx(self, vec):
        return {'vector': vec, 'schema': self.schema, 'roots': self.roots}

    # -------------------------------------------------------------- vectors
    def on_vec(self, tag, obj):
        if tag != 'VEC':
            return
        obj = norm_abs(obj)
        if obj['phase'] == 'schema':
            self.setup(obj)
            return
        self.n += 1
        self.select(obj['cfg'])
        # expand the abbreviations of StoneWireMC!Vector
        if isinstance(obj['root'], int):
            obj['root'] = self.roots[obj['root'] - 1]
        if obj['strict'].get('k') == 'same':
            obj['strict'] = {'k': 'ok', 'v': obj['val']}
        if obj['lenient'].get('k') == 'same':
            obj['lenient'] = obj['strict']
        try:
            if self.prop == 'C04' and obj['phase'] == 'sent':
                self.judge_roundtrip(obj)
            elif self.prop == 'C05' and obj['phase'] == 'sent':
                self.judge_format(obj)
            elif self.prop == 'C06':
                self.judge_decode(obj)
        except Exception as e:  # harness bug: surface as machinery failure
            import traceback
            raise RuntimeError('judge crashed on %s: %s' % (json.dumps(obj)[:2000], traceback.format_exc()))

    def build(self, vec):
        """abstract value -> python value through the generated classes."""
        return self.binder.to_py(vec['root'], vec['val'])

    # -------------------------------------------------------------- C04
    def judge_roundtrip(self, vec):
        ss, bv = self.ss, self.bv
        root = vec['root']
        val = self.validator_for(root)
        self.judged += 1
        if self.judged % 997 == 1:
            self.sample({'root': root, 'value': vec['val'], 'doc': vec['doc']})
        try:
            py = self.build(vec)
        except bv.ValidationError as e:
            self.violation(None, 'valid value refused by generated classes: %s' % e, self.ctx(vec))
            return
        try:
            enc = ss.json_compat_obj_encode(val, py)
            enc_s = ss.json_encode(val, py)
        except Exception as e:
            self.violation(None, 'encoding a valid value raised %s: %s' % (type(e).__name__, e), self.ctx(vec))
            return
        for strict, key in ((True, 'strict'), (False, 'lenient')):
            exp = vec[key]
            assert exp['k'] == 'ok', exp
            exp_py = self.binder.to_py(root, exp['v'])
            for entry in ('obj', 'str'):
                self.count('roundtrips')
                try:
                    if entry == 'obj':
                        dec = ss.json_compat_obj_decode(val, json.loads(json.dumps(enc)), strict=strict)
                    else:
                        dec = ss.json_decode(val, enc_s, strict=strict)
                except Exception as e:
                    self.violation(None, 'decode(encode(v)) raised %s: %s (strict=%s, %s)'
                                   % (type(e).__name__, e, strict, entry), self.ctx(vec))
                    continue
                if not (dec == exp_py) or (dec != exp_py):
                    self.violation(None, 'decode(encode(v)) != v by the runtime equality (strict=%s, %s): %r vs %r'
                                   % (strict, entry, dec, exp_py), self.ctx(vec))
                    continue
                try:
                    proj = self.binder.from_py(root, dec)
                except Unprojectable as e:
                    self.violation(None, 'decoded value is not a value of the type: %s' % e, self.ctx(vec))
                    continue
                if proj != exp['v']:
                    self.violation(None, 'decode(encode(v)) differs from v (strict=%s, %s)' % (strict, entry),
                                   self.ctx(vec), proj)
                    continue
                try:
                    enc2 = ss.json_compat_obj_encode(val, dec)
                except Exception as e:
                    self.violation(None, 're-encoding raised %s: %s' % (type(e).__name__, e), self.ctx(vec))
                    continue
                if not json_strict_eq(enc2, enc):
                    self.violation(None, 'encode(decode(encode(v))) != encode(v)', self.ctx(vec),
                                   {'first': enc, 'second': enc2})

    # -------------------------------------------------------------- C05
    def judge_format(self, vec):
        ss, bv = self.ss, self.bv
        root = vec['root']
        val = self.validator_for(root)
        self.judged += 1
        expected = doc_to_json(vec['doc'])
        if self.judged % 997 == 1:
            self.sample({'root': root, 'value': vec['val'], 'expected_json': expected})
        try:
            py = self.build(vec)
            enc = ss.json_compat_obj_encode(val, py)
            enc_s = json.loads(ss.json_encode(val, py))
        except Exception as e:
            self.violation(None, 'encoding a valid value raised %s: %s' % (type(e).__name__, e), self.ctx(vec))
            return
        enc = json.loads(json.dumps(enc))
        if not json_strict_eq(enc, expected):
            self.violation(None, 'json_compat_obj_encode output differs from the documented wire format',
                           self.ctx(vec), {'got': enc, 'expected': expected})
        elif not json_strict_eq(enc_s, expected):
            self.violation(None, 'json_encode output differs from the documented wire format',
                           self.ctx(vec), {'got': enc_s, 'expected': expected})

    # -------------------------------------------------------------- C06
    def judge_decode(self, vec):
        self.judge_decode_once(vec)
        if stonegen.has_not_ok_str(vec['doc']):
            # the other way of failing a pattern: a full match followed by a line feed
            stonegen.NOT_OK_TAIL = '\n'
            try:
                self.judge_decode_once(vec)
            finally:
                stonegen.NOT_OK_TAIL = 'Z'

    def judge_decode_once(self, vec):
        ss, bv = self.ss, self.bv
        root = vec['root']
        val = self.validator_for(root)
        jdoc = doc_to_json(vec['doc'])
        jtxt = json.dumps(jdoc)
        for strict, key in ((True, 'strict'), (False, 'lenient')):
            exp = vec[key]
            for entry in ('obj', 'str'):
                try:
                    if entry == 'obj':
                        dec = ss.json_compat_obj_decode(val, json.loads(jtxt), strict=strict)
                    else:
                        dec = ss.json_decode(val, jtxt, strict=strict)
                    out = ('ok', dec)
                except bv.ValidationError:
                    out = ('verr', None)
                except Exception as e:
                    fid = 'exc_%s_%s' % (type(e).__name__, classify_escape(self.schema, root, vec['doc'], e))
                    self.violation(fid, 'decoder raised %s instead of ValidationError: %s (strict=%s, %s) on %s'
                                   % (type(e).__name__, e, strict, entry, jtxt[:300]), self.ctx(vec))
                    self.count('escapes')
                    continue
                if exp['k'] == 'unspec':
                    self.skip('unspecified')
                    continue
                self.judged += 1
                if self.judged % 9973 == 1:
                    self.sample({'root': root, 'document': jdoc, 'strict': strict, 'expected': exp['k']})
                if exp['k'] == 'err':
                    self.count('must_reject')
                    if out[0] == 'verr':
                        continue
                    dev = vec.get('d' + key)
                    fid = None
                    if dev is not None and dev['k'] == 'unspec':
                        # past the recorded departure (an all-optional struct filled in) the document takes a form the
                        # documents leave open (e.g. a boolean where a number is declared): not judged
                        self.skip('unspecified_after_known_deviation')
                        continue
                    if dev is not None and dev['k'] == 'ok':
                        try:
                            if self.binder.from_py(root, out[1]) == dev['v']:
                                fid = 'dev_allopt_default'
                        except Unprojectable:
                            pass
                    if fid is None:
                        fid = classify_accept(self.schema, root, vec['doc'])
                    self.violation(fid, 'document that must be rejected was accepted (strict=%s, %s): %s -> %r'
                                   % (strict, entry, jtxt[:300], out[1]), self.ctx(vec))
                else:
                    self.count('must_accept')
                    if out[0] == 'verr':
                        self.violation(None, 'valid document rejected (strict=%s, %s): %s' % (strict, entry, jtxt[:300]),
                                       self.ctx(vec))
                        continue
                    try:
                        proj = self.binder.from_py(root, out[1])
                    except Unprojectable as e:
                        self.violation(classify_accept(self.schema, root, vec['doc']),
                                       'decoder returned a value that is not valid for the type: %s (strict=%s, %s) on %s'
                                       % (e, strict, entry, jtxt[:300]), self.ctx(vec))
                        continue
                    if proj != exp['v']:
                        self.violation(None, 'decoded value differs from the documented one (strict=%s, %s) on %s'
                                       % (strict, entry, jtxt[:300]), self.ctx(vec), proj)


def classify_escape(schema, root, doc, exc):
    """Coarse, stable class of a non-validation exception: used only to match known findings."""
    msg = str(exc)
    if isinstance(exc, TypeError) and ('not iterable' in msg or 'indices must be' in msg or 'not subscriptable' in msg):
        return 'nonobject_for_subtype_struct'
    if isinstance(exc, ValueError) and 'ASCII' in msg:
        return 'nonascii_base64'
    return 'other'


def classify_accept(schema, root, doc):
    if root['k'] in ('list', 'map', 'nullable'):
        return 'toplevel_container_unvalidated'
    return None


class CallerPermissions:
    def __init__(self, perms):
        self.permissions = list(perms)


class AnnotJudge(Judge):
    """C13: StoneAnnotMC vectors replayed through json_encode/json_decode with permissions/redaction."""

    SENTINELS = ['se2cret2', 'se3cret3', '2147483646', '10000000000.0']

    def __init__(self, params):
        super().__init__(params)
        self.ctxs = {}
        from stone.backends.python_rsrc import stone_serializers as ss
        from stone.backends.python_rsrc import stone_validators as bv
        self.ss = ss
        self.bv = bv

    def setup(self, obj):
        schema, roots = obj['schema'], obj['roots']
        gen = Generated(render_schema(schema, roots, patched=obj.get('patched')))
        nsa = gen.module('nsa')
        omitted = {}
        for n, d in schema.items():
            for m in d.get('fields', []) + d.get('tags', []):
                if m.get('omit'):
                    omitted.setdefault(m['omit'], set()).add(m['n'])
        self.ctxs[obj['cfg']] = {
            'schema': schema, 'roots': roots, 'gen': gen, 'binder': Binder(schema, gen), 'omitted': omitted,
            'patched': obj.get('patched'),
            'validators': [getattr(nsa, 'probe%d' % i).arg_type for i in range(len(roots))]}

    def finish(self):
        for c in self.ctxs.values():
            c['gen'].close()
        self.ctxs = {}

    def on_vec(self, tag, obj):
        if tag != 'VEC':
            return
        obj = norm_abs(obj)
        if obj['phase'] == 'schema':
            self.setup(obj)
            return
        self.n += 1
        c = self.ctxs[obj['cfg']]
        root = c['roots'][obj['root'] - 1]
        validator = c['validators'][obj['root'] - 1]
        binder = c['binder']
        ctx = {'vector': obj, 'schema': c['schema'], 'roots': c['roots'], 'patched': c['patched']}
        ss, bv = self.ss, self.bv
        perms = obj['perms'] if isinstance(obj['perms'], list) else []
        try:
            py = binder.to_py(root, obj['val'])
        except bv.ValidationError as e:
            self.violation(None, 'valid value refused by generated classes: %s' % e, ctx)
            return
        if obj['phase'] == 'sent':
            self.judged += 1
            if self.judged % 4999 == 1:
                self.sample({'root': root, 'value': obj['val'], 'perms': perms, 'redact': obj['rd'],
                             'expected_doc': obj['doc']})
            try:
                text = ss.json_encode(validator, py, caller_permissions=CallerPermissions(perms),
                                      should_redact=obj['rd'])
                out = ('ok', text)
            except bv.ValidationError:
                out = ('verr', None)
            except Exception as e:
                self.violation('exc_' + type(e).__name__, 'encoder raised %s: %s' % (type(e).__name__, e), ctx)
                return
            if obj['doc']['k'] == 'encerr':
                self.count('must_refuse')
                if out[0] != 'verr':
                    self.violation(None, 'encoding for caller %s must be refused but produced %s' % (perms, out[1][:300]), ctx)
                return
            if out[0] != 'ok':
                self.violation(None, 'encoding a valid value for caller %s was refused' % (perms,), ctx)
                return
            got = json.loads(text)
            # (a) independent universal-negative checks on the produced text
            for cls, names in c['omitted'].items():
                if cls in perms:
                    continue
                hit = _keys_and_tags(got) & names
                if hit:
                    self.violation(None, 'member(s) %s omitted for %r leaked to caller %s: %s'
                                   % (sorted(hit), cls, perms, text[:300]), ctx)
            if obj['rd']:
                self.count('redacted_encodings')
                for s in self.SENTINELS:
                    if s in text:
                        self.violation(None, 'clear text %r of a redacted value appears in %s' % (s, text[:300]), ctx)
            # (b) exact prediction of the model
            expected = doc_to_json(obj['doc'])
            if not json_strict_eq(got, expected):
                self.violation(None, 'encoding for caller %s (redact=%s) differs from the documented one: %s vs %s'
                               % (perms, obj['rd'], text[:300], json.dumps(expected)[:300]), ctx)
        elif obj['phase'] == 'received':
            self.judged += 1
            perms2 = obj['perms2'] if isinstance(obj['perms2'], list) else []
            jtxt = json.dumps(doc_to_json(obj['doc']))
            try:
                dec = ss.json_decode(validator, jtxt, caller_permissions=CallerPermissions(perms2), strict=True)
                out = ('ok', dec)
            except bv.ValidationError:
                out = ('verr', None)
            except Exception as e:
                self.violation('exc_' + type(e).__name__, 'decoder raised %s: %s' % (type(e).__name__, e), ctx)
                return
            exp = obj['res']
            if exp['k'] == 'unspec':
                self.skip('unspecified')
            elif exp['k'] == 'err':
                self.count('must_reject')
                if out[0] != 'verr':
                    self.violation(None, 'caller %s supplied %s and strict decoding accepted it' % (perms2, jtxt[:300]), ctx)
            else:
                self.count('must_accept')
                if out[0] != 'ok':
                    self.violation(None, 'caller %s: valid document %s rejected' % (perms2, jtxt[:300]), ctx)
                    return
                try:
                    proj = binder.from_py(root, out[1])
                except Unprojectable as e:
                    self.violation(None, 'decoded value not valid for the type: %s' % e, ctx)
                    return
                if proj != exp['v']:
                    self.violation(None, 'caller %s: decoded value differs from the documented one for %s'
                                   % (perms2, jtxt[:300]), ctx, proj)


def _keys_and_tags(j):
    out = set()
    if isinstance(j, dict):
        for k, v in j.items():
            out.add(k)
            if k == '.tag' and isinstance(v, str):
                out.add(v)
            out |= _keys_and_tags(v)
    elif isinstance(j, list):
        for v in j:
            out |= _keys_and_tags(v)
    return out


class EvolveJudge(Judge):
    """C07: StoneEvolveMC vectors replayed with two generated packages (versions A and B)."""

    def __init__(self, params):
        super().__init__(params)
        self.a = None
        self.bs = {}
        from stone.backends.python_rsrc import stone_serializers as ss
        from stone.backends.python_rsrc import stone_validators as bv
        self.ss, self.bv = ss, bv

    def _pkg(self, schema, extra_route=False):
        specs = render_schema(schema)
        if extra_route:
            specs = [(p, t + ('\nroute brand_new(Void, Void, Void)\n' if p == 'nsa.stone' else '')) for p, t in specs]
        gen = Generated(specs)
        return {'schema': schema, 'gen': gen, 'binder': Binder(schema, gen), 'specs': specs}

    def setup(self, obj):
        if self.a is None:
            self.a = self._pkg(obj['specA'])
            self.info = {}
        key = json.dumps(obj['edits'], sort_keys=True)
        if key not in self.info:
            # the schema vectors of a breadth-first run all come before the value vectors: remember the history, build
            # its package on first use (package()), keep at most 40 packages alive
            self.info[key] = {'specB': obj['specB'], 'edits': obj['edits'],
                              'ren': dict(obj['ren']) if isinstance(obj['ren'], dict) else {}}
            self.count('histories')

    def package(self, key):
        if key in self.bs:
            self.bs[key] = self.bs.pop(key)         # most recently used last
            return self.bs[key]
        if len(self.bs) >= 40:
            k0 = next(iter(self.bs))
            self.bs.pop(k0)['gen'].close()
        inf = self.info[key]
        b = self._pkg(inf['specB'], any(e['e'] == 'add_route' for e in inf['edits']))
        b.update(ren=inf['ren'], specB=inf['specB'], edits=inf['edits'])
        self.bs[key] = b
        return b

    def finish(self):
        if self.a:
            self.a['gen'].close()
        for b in self.bs.values():
            b['gen'].close()
        self.bs = {}

    def on_vec(self, tag, obj):
        if tag != 'VEC':
            return
        obj = norm_abs(obj)
        if obj['phase'] == 'schema':
            self.setup(obj)
            return
        self.n += 1
        key = json.dumps(obj['edits'], sort_keys=True)
        b = self.package(key)
        a = self.a
        ren = b['ren']                      # B-name -> A-name
        inv = {v: k for k, v in ren.items()}
        ss, bv = self.ss, self.bv
        ctx = {'vector': obj, 'specA': a['schema'], 'specB': b['specB'], 'ren': ren}
        root = obj['root']
        if obj['dir'] == 'forward':
            snd, rcv = b, a
            rroot = {'k': 'ref', 'n': ren.get(root['n'], root['n'])}
        else:
            snd, rcv = a, b
            rroot = {'k': 'ref', 'n': inv.get(root['n'], root['n'])}
        try:
            py = snd['binder'].to_py(root, obj['val'])
            wire = ss.json_encode(snd['binder'].validator(root['n']), py)
        except Exception as e:
            self.violation(None, 'sender (%s) could not encode a valid value: %s: %s' % (obj['dir'], type(e).__name__, e), ctx)
            return
        if not json_strict_eq(json.loads(wire), doc_to_json(obj['doc'])):
            self.violation(None, 'sender (%s) encoding differs from the documented wire format: %s' % (obj['dir'], wire[:300]), ctx)
            return
        rval = rcv['binder'].validator(rroot['n'])
        for strict, k in ((True, 'strict'), (False, 'lenient')):
            exp = obj[k]
            try:
                dec = ss.json_decode(rval, wire, strict=strict)
                out = ('ok', dec)
            except bv.ValidationError as e:
                out = ('verr', str(e))
            except Exception as e:
                self.violation('exc_' + type(e).__name__, '%s receiver raised %s: %s on %s' % (obj['dir'], type(e).__name__, e, wire[:300]), ctx)
                continue
            if obj.get('unpromised'):
                self.skip('unpromised_direction')
                continue
            if exp['k'] == 'unspec':
                self.skip('unspecified')
                continue
            self.judged += 1
            if self.judged % 2999 == 1:
                self.sample({'edits': obj['edits'], 'direction': obj['dir'], 'strict': strict, 'wire': json.loads(wire),
                             'expected': exp})
            what = '%s, %s receiver, history %s, message %s' % (obj['dir'], 'strict' if strict else 'lenient',
                                                              json.dumps(obj['edits']), wire[:300])
            if exp['k'] == 'err':
                self.count('must_reject')
                if out[0] != 'verr':
                    self.violation(None, 'message containing something the receiver does not know was accepted: ' + what, ctx)
                continue
            self.count('must_accept')
            if out[0] != 'ok':
                self.violation(None, 'compatible message rejected (%s): %s' % (out[1], what), ctx)
                continue
            try:
                proj = rcv['binder'].from_py(rroot, out[1])
            except Unprojectable as e:
                self.violation(None, 'receiver returned an invalid value (%s): %s' % (e, what), ctx)
                continue
            if proj != exp['v']:
                self.violation(None, 'receiver view differs from the one the guide promises: ' + what, ctx, proj)
                continue
            # what the message leaves unset reads as the receiver's declared default
            from wire import unset_defaults
            wrong = unset_defaults(rcv['binder'], rroot, out[1])
            if wrong:
                self.violation('unset_default', 'a field the message leaves unset reads %s instead of its declared default (%s): %s'
                               % (wrong[0][2], wrong[0][0], what), ctx)

"""C04 C05 C06: StoneWireMC explored by TLC, every state replayed through generated Python classes."""
import json
import random

import runner
from runner import Report, run_shards, merge, seed

NCFG = 100
INVARIANTS = ['ValuesAreValid', 'EncodeSucceeds', 'RoundTrip', 'Idempotent', 'DecodedIsValid',
              'StrictRefinesLenient', 'DevsOnlyOnFaults']


NSHARDS = 16


def _cfg(shard, max_tamper, sel, depth=2, emit=True):
    return dict(spec='Spec',
                constants={'Shard': shard, 'NShards': NSHARDS, 'MaxTamper': max_tamper, 'Depth': depth,
                           'EmitVectors': emit, 'CfgSel': '{%s}' % ', '.join(map(str, sel))},
                invariants=INVARIANTS, constraints=['Emit'])


def _shards(tier, quick_n):
    """Schema indices explored: all 100 in thorough; in quick either all (quick_n >= 100) or one
    (closed?, catch-all?) combination per slot type, chosen by the seed, so that every slot type
    is met on every run."""
    if tier == 'thorough' or quick_n >= NCFG:
        return list(range(NCFG))
    rng = random.Random(seed())
    return sorted({0} | {x * 4 + rng.randrange(4) for x in range(NCFG // 4)})


def _replay(prop, path):
    from wirecheck import WireJudge
    with open(path) as f:
        payload = json.load(f)
    rep = Report(prop, 'quick')
    if 'vector' not in payload:
        print('replay file has no vector (model-level violation): rerun the check')
        return 2
    ctx = payload['vector']
    j = WireJudge({'prop': prop})
    j.on_vec('VEC', {'phase': 'schema', 'cfg': -1, 'schema': ctx['schema'], 'roots': ctx['roots']})
    ctx['vector']['cfg'] = -1
    j.on_vec('VEC', ctx['vector'])
    j.finish()
    agg = {'judged': j.judged, 'violations': j.violations, 'samples': j.samples, 'skipped': j.skipped,
           'kinds': j.kinds}
    rep.states = 1
    rep.transitions = 1
    rep.add_judged(agg)
    return rep.finish()


def wide_stage(rep, prop, sel, per_cfg):
    """StoneWireWide: values drawn on the implementation side (wider and deeper than Vals), evaluated by the specification,
    compared with the real encoder/decoder."""
    import os
    import shutil
    import tempfile
    import tlc
    import widegen
    from wire import norm_abs
    schemas = {}

    def on(tag, obj):
        if tag == 'VEC' and obj.get('phase') == 'schema':
            a = norm_abs(obj)
            schemas[a['cfg']] = (a['schema'], a['roots'])
    c = _cfg(0, 0, sel)
    c['constants'] = dict(c['constants'], NShards=1)
    c['constraints'] = ['Emit', 'OnlyInit']
    tlc.run('StoneWireMC', c, workers=1, on_vec=on, timeout=600)
    tmp = tempfile.mkdtemp(prefix='verif-wide-')
    try:
        nfiles = 8                      # one JVM per file; start-up dominates, so few files
        paths = {}
        total = 0
        for s in range(nfiles):
            mine = {k: v for k, v in schemas.items() if k % nfiles == s}
            if not mine:
                continue
            paths[s] = os.path.join(tmp, 'wide_%d.ndjson' % s)
            total += widegen.write_trace(paths[s], mine, per_cfg, seed() * 1000 + s, lossy_ts=(prop == 'C05'))

        def cfg_for(s):
            c = _cfg(s, 0, sel)
            c['spec'] = 'WSpec'
            # C05 also records timestamps their format does not carry completely: the encoder is judged, round trips are not
            c['invariants'] = (['DriverValuesValid', 'EncodeSucceeds'] if prop == 'C05' else
                               ['DriverValuesValid', 'EncodeSucceeds', 'RoundTrip', 'Idempotent', 'DecodedIsValid', 'StrictRefinesLenient'])
            c['constraints'] = ['WEmit']
            c['_tlc'] = {'env_extra': {'TRACE_FILE': paths[s]}}
            return c
        res = run_shards('StoneWireWide', cfg_for, sorted(paths), 'wirecheck.WireJudge', {'prop': prop}, tlc_kwargs={'timeout': 3000})
        agg = merge(res)
        if 'DriverValuesValid' in agg['violated']:
            raise runner.MachineryFailure('harness/widegen.py produced a value that is not of the declared type')
        rep.add_tlc('StoneWireWide', agg, {'recorded_values': total, 'per_schema': per_cfg, 'depth': 4})
        rep.add_judged(agg)
    finally:
        shutil.rmtree(tmp, ignore_errors=True)


def _run(prop, tier, replay, max_tamper, quick_n, text):
    if replay:
        return _replay(prop, replay)
    rep = Report(prop, tier)
    sel = _shards(tier, quick_n)
    shards = [s for s in range(NSHARDS) if any(c % NSHARDS == s for c in sel)]
    res = run_shards('StoneWireMC', lambda s: _cfg(s, max_tamper, sel), shards, 'wirecheck.WireJudge',
                     {'prop': prop}, tlc_kwargs={'timeout': 3000})
    agg = merge(res)
    rep.add_tlc('StoneWireMC', agg, {'schemas': sel, 'of': NCFG, 'MaxTamper': max_tamper, 'Depth': 2})
    rep.add_judged(agg)
    if prop in ('C04', 'C05'):
        wide_stage(rep, prop, sel, 25 if tier == 'quick' else 400)
    if prop == 'C06' and tier == 'thorough':
        # two edits per document: random behaviours of the same machine (16 simulation runs, different seeds)
        def sim_cfg(s):
            c = _cfg(s, 2, sel)
            c['_tlc'] = {'simulate': 'num=2500', 'depth': 8, 'seed': seed() * 16 + s}
            return c
        res = run_shards('StoneWireMC', sim_cfg, shards, 'wirecheck.WireJudge', {'prop': prop}, tlc_kwargs={'timeout': 3000})
        agg2 = merge(res)
        rep.add_tlc('StoneWireMC/two-tamper-simulate', agg2, {'MaxTamper': 2, 'num': 16 * 2500, 'depth': 8})
        rep.add_judged(agg2)
    rep.exhaustive = (len(sel) == NCFG)
    rep.coverage_extra['rule'] = text
    rep.assumptions = [
        'TLC 1.8 and the CommunityModules Json module',
        'harness/stonegen.py render and harness/wire.py render/project (their composition is exercised by every vector)',
        'numbers are ranks in the anchor table of specs/StoneAnchors.tla (order-isomorphic)',
        'leaf codecs (base64, strftime) compared against the Python standard library',
    ]
    return rep.finish()


def check_c04(tier, replay=None):
    return _run('C04', tier, replay, 0, NCFG,
                'every (schema of 100, root type of 17, boundary-biased valid value) state of StoneWireMC; '
                'each replayed: build with generated classes, encode, decode strict+lenient through both '
                'entry points, compare by runtime == and by projected abstract value, re-encode')


def check_c05(tier, replay=None):
    return _run('C05', tier, replay, 0, NCFG,
                'every sent state of StoneWireMC; the document computed by the TLA+ Enc operator from the '
                'abstract schema is compared (type-strict parsed JSON) with json_compat_obj_encode and json_encode')


def check_c06(tier, replay=None):
    return _run('C06', tier, replay, 1, 10,
                'every sent and one-edit tampered document of StoneWireMC x {strict, lenient} x {obj, str entry}; '
                'classified ok(v)/err/unspec by the TLA+ Dec operator; unspecified ones only checked for exception class')


# ---------------------------------------------------------------------------- C13
ANNOT_NCFG = 24
ANNOT_INVS = ['NoOmittedLeak', 'PresentWithPermission', 'NoRedactedLeak', 'OmittedNotSuppliable',
              'RefusedOnlyForHiddenTagOrMissing']


def check_c13(tier, replay=None):
    if replay:
        from wirecheck import AnnotJudge
        with open(replay) as f:
            payload = json.load(f)
        if 'vector' not in payload:
            print('replay file has no vector (model-level violation): rerun the check')
            return 2
        ctx = payload['vector']
        rep = Report('C13', 'quick')
        j = AnnotJudge({})
        j.on_vec('VEC', {'phase': 'schema', 'cfg': ctx['vector']['cfg'], 'schema': ctx['schema'],
                         'roots': ctx['roots'], 'patched': ctx.get('patched')})
        j.on_vec('VEC', ctx['vector'])
        j.finish()
        rep.states = rep.transitions = 1
        rep.add_judged({'judged': j.judged, 'violations': j.violations, 'samples': j.samples,
                        'skipped': j.skipped, 'kinds': j.kinds})
        return rep.finish()
    rep = Report('C13', tier)
    nsh = 12 if tier == 'quick' else 24
    # quick: the 12 even shards of 24 (every redactor kind, half of the slot types, by seed parity)
    shards = list(range(24))
    res = run_shards('StoneAnnotMC',
                     lambda s: dict(spec='Spec', constants={'Shard': s, 'NShards': ANNOT_NCFG, 'EmitVectors': True},
                                    invariants=ANNOT_INVS, constraints=['Emit']),
                     shards, 'wirecheck.AnnotJudge', {}, tlc_kwargs={'timeout': 3000})
    agg = merge(res)
    rep.add_tlc('StoneAnnotMC', agg, {'schemas': shards, 'of': ANNOT_NCFG})
    rep.add_judged(agg)
    rep.exhaustive = True
    rep.coverage_extra['rule'] = ('every (schema variant: 4 redactor kinds x 6 redacted slot types; 8 root types; full or public '
                                  'value with sentinels below every redactor; every subset of {c1,c2} as encoding caller; '
                                  'redaction on/off; every subset as decoding caller) state of StoneAnnotMC; replayed through '
                                  'json_encode/json_decode; produced text searched for omitted member names and sentinels and '
                                  'compared with the predicted document')
    rep.assumptions = ['TLC 1.8; harness render/project; md5 and the regex engine of the Python standard library as redaction oracles']
    return rep.finish()


# ---------------------------------------------------------------------------- C07
EVOLVE_INVS = ['Forward', 'StrictExact', 'Backward', 'ViewIdentity', 'BStillValid']


def check_c07(tier, replay=None):
    if replay:
        from wirecheck import EvolveJudge
        with open(replay) as f:
            payload = json.load(f)
        if 'vector' not in payload:
            print('replay file has no vector (model-level violation): rerun the check')
            return 2
        ctx = payload['vector']
        rep = Report('C07', 'quick')
        j = EvolveJudge({})
        j.on_vec('VEC', {'phase': 'schema', 'edits': ctx['vector']['edits'], 'specA': ctx['specA'],
                         'specB': ctx['specB'], 'ren': ctx['ren']})
        j.on_vec('VEC', ctx['vector'])
        j.finish()
        rep.states = rep.transitions = 1
        rep.add_judged({'judged': j.judged, 'violations': j.violations, 'samples': j.samples,
                        'skipped': j.skipped, 'kinds': j.kinds})
        return rep.finish()
    rep = Report('C07', tier)
    res = run_shards('StoneEvolveMC',
                     lambda s: dict(spec='Spec', constants={'Shard': s, 'NShards': 16, 'EmitVectors': True, 'MaxEdits': 1},
                                    invariants=EVOLVE_INVS, constraints=['Emit', 'InShard']),
                     list(range(16)), 'wirecheck.EvolveJudge', {}, tlc_kwargs={'timeout': 3000})
    agg = merge(res)
    rep.add_tlc('StoneEvolveMC/1-edit', agg, {'MaxEdits': 1})
    rep.add_judged(agg)
    if tier == 'thorough':
        # 2-edit histories: the state space (all pairs of ~80 edits x values x directions) by sharded exhaustive search
        res = run_shards('StoneEvolveMC',
                         lambda s: dict(spec='Spec', constants={'Shard': s, 'NShards': 64, 'EmitVectors': True, 'MaxEdits': 2},
                                        invariants=EVOLVE_INVS, constraints=['Emit', 'InShard']),
                         list(range(64)), 'wirecheck.EvolveJudge', {}, tlc_kwargs={'timeout': 7000, 'heap': '3g'})
        agg = merge(res)
        rep.add_tlc('StoneEvolveMC/2-edit', agg, {'MaxEdits': 2})
        rep.add_judged(agg)
    rep.exhaustive = True
    rep.coverage_extra['rule'] = ('every history of 1 (thorough: 2) backwards-compatible edits (add optional / defaulted field at '
                                  'every struct incl. parents, subtypes, union members, list elements, map values; add tag to every open '
                                  'union with every member kind; give each Void tag each of 7 types; add a subtype under the catch-all; '
                                  'rename struct/union/alias; introduce / inline an alias; add a route) x every root type x '
                                  'boundary-biased values of the sender version x both directions x {strict, lenient}')
    rep.assumptions = ['TLC 1.8; harness render/project; View/Lossy/Lift are the formalisation of docs/evolve_spec.rst']
    return rep.finish()

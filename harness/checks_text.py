"""C03: StoneLex + StoneTok."""
import json

from runner import Report, run_shards, merge, seed

LEX_INVS = ['NoCrash', 'LayoutInvariance', 'Balanced']


def check_c03(tier, replay=None):
    if replay:
        from lexcheck import TextJudge
        with open(replay) as f:
            payload = json.load(f)
        rep = Report('C03', 'quick')
        j = TextJudge({})
        ctx = payload.get('vector', {})
        if 'vector' in ctx:
            j.on_vec('VEC', ctx['vector'])
        elif 'specs' in ctx:
            j.frontend([tuple(s) for s in ctx['specs']], ctx, 'replayed specs')
            j.judged = 1
        else:
            print('replay file has no vector: rerun the check')
            return 2
        rep.states = rep.transitions = 1
        rep.add_judged({'judged': j.judged, 'violations': j.violations, 'samples': j.samples,
                        'skipped': j.skipped, 'kinds': j.kinds})
        return rep.finish()
    rep = Report('C03', tier)
    maxlines = 3 if tier == 'quick' else 4
    res = run_shards('StoneLex',
                     lambda s: dict(spec='Spec', constants={'Shard': s, 'NShards': 16, 'EmitVectors': True, 'MaxLines': maxlines},
                                    invariants=LEX_INVS, constraints=['Emit', 'InShard']),
                     list(range(16)), 'lexcheck.TextJudge', {}, tlc_kwargs={'timeout': 6000})
    agg = merge(res)
    rep.add_tlc('StoneLex', agg, {'MaxLines': maxlines, 'alphabet': 33})
    rep.add_judged(agg)
    maxlen = 3 if tier == 'quick' else 5
    res = run_shards('StoneTok',
                     lambda s: dict(spec='Spec', constants={'Shard': s, 'NShards': 16, 'EmitVectors': True, 'Mode': '"strings"',
                                                            'MaxLen': maxlen, 'MaxEdits': 0, 'Stride': 1, 'Phase': 0},
                                    invariants=['TypeOK'], constraints=['Emit', 'InShard']),
                     list(range(16)), 'lexcheck.TextJudge', {}, tlc_kwargs={'timeout': 6000})
    agg = merge(res)
    rep.add_tlc('StoneTok/strings', agg, {'MaxLen': maxlen, 'classes': 16})
    rep.add_judged(agg)
    res = run_shards('StoneTok',
                     lambda s: dict(spec='Spec', constants={'Shard': s, 'NShards': 16, 'EmitVectors': True, 'Mode': '"edits"',
                                                            'MaxLen': 0, 'MaxEdits': 1, 'Stride': 1, 'Phase': 0},
                                    invariants=['TypeOK'], constraints=['Emit', 'InShard']),
                     list(range(16)), 'lexcheck.TextJudge', {}, tlc_kwargs={'timeout': 6000})
    agg = merge(res)
    rep.add_tlc('StoneTok/edits', agg, {'MaxEdits': 1, 'seeds': 4, 'pool': 41})
    rep.add_judged(agg)
    if tier == 'thorough':
        # two- and three-edit mutants: at every step a slice (1/160) of the edits, a different slice in each of 16 runs
        res = run_shards('StoneTok',
                         lambda s: dict(spec='Spec', constants={'Shard': 0, 'NShards': 1, 'EmitVectors': True, 'Mode': '"edits"',
                                                                'MaxLen': 0, 'MaxEdits': 3, 'Stride': 160,
                                                                'Phase': (seed() * 16 + s) * 37 % 160},
                                        invariants=['TypeOK'], constraints=['Emit']),
                         list(range(16)), 'lexcheck.TextJudge', {}, tlc_kwargs={'timeout': 6000})
        agg = merge(res)
        rep.add_tlc('StoneTok/edits-2-3', agg, {'MaxEdits': 3, 'Stride': 160, 'runs': 16})
        rep.add_judged(agg)
    # every instance of the StoneSemMC scenario universes (legal and rule-breaking choices at every site, patches incl.)
    import checks_sem
    scens = checks_sem.SCENARIOS if tier == 'thorough' else ['P', 'E', 'R']      # quick: patches, examples/subtypes, routes
    jobs = [(scen, sh) for scen in scens for sh in range(2)]
    res = run_shards('StoneSemMC', lambda j: checks_sem._cfg(j[0], j[1], 2, 'one'), jobs, 'semcheck.SemJudge', {'prop': 'C03'},
                     tlc_kwargs={'timeout': 6000})
    agg = merge(res)
    rep.add_tlc('StoneSemMC/scenarios', agg, {'OrderMode': 'one', 'scenarios': scens})
    rep.add_judged(agg)
    from checks_sem import lit_stage
    lit_stage(rep, 'C03', ('exlit', 'attr', 'annot', 'anndef', 'badtype') if tier == 'quick' else ('exlit', 'attr', 'docref', 'annot', 'anndef', 'badtype'))
    rep.exhaustive = True
    rep.coverage_extra['rule'] = ('every sequence of <= %d physical lines over a 33-letter line alphabet (indent 0/2/4/8 x plain/open/'
                                  'close/open-close/nested-open/trailing-comment/whitespace-only/comment + blank), each tokenised by the real Lexer (skeleton and '
                                  'errors compared with StoneLex!OpLex) and compiled bare and after a namespace header; every string of <= %d '
                                  'token classes after a namespace header; every single token edit (delete, duplicate, swap, replace/insert '
                                  'from a 41-token pool, truncate) of 4 seed specs; outcome must be an Api or InvalidSpec with a message and '
                                  'an input path; command-line spot checks' % (maxlines, maxlen))
    rep.assumptions = ['TLC 1.8; harness/lexcheck.py render_lines / render_tokens']
    return rep.finish()

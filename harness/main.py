"""./check <ID> [--tier quick|thorough] [--replay path]"""
import argparse
import importlib
import os
import sys
import traceback

HERE = os.path.dirname(os.path.abspath(__file__))
sys.path.insert(0, HERE)
os.environ.setdefault('PYTHONHASHSEED', '0')
# Seed testing only: STONE_VERIF_TREE points the harness (and the child processes it starts) at a scratch copy of dropbox/stone
# instead of the installed /repo tree.  Registered commands never set it.
if os.environ.get('STONE_VERIF_TREE'):
    sys.path.insert(1, os.environ['STONE_VERIF_TREE'])
    os.environ['PYTHONPATH'] = os.environ['STONE_VERIF_TREE'] + os.pathsep + os.environ.get('PYTHONPATH', '')

CHECKS = {
    'C01': 'checks_sem.check_c01',
    'C02': 'checks_sem.check_c02',
    'C09': 'checks_load.check_c09',
    'C10': 'checks_misc.check_c10',
    'C11': 'checks_sem.check_c11',
    'C14': 'checks_load.check_c14',
    'C15': 'checks_load.check_c15',
    'C03': 'checks_text.check_c03',
    'C04': 'checks_wire.check_c04',
    'C05': 'checks_wire.check_c05',
    'C06': 'checks_wire.check_c06',
    'C07': 'checks_wire.check_c07',
    'C08': 'checks_rt.check_c08',
    'C12': 'checks_runs.check_c12',
    'C13': 'checks_wire.check_c13',
    'C16': 'checks_load.check_c16',
    'C17': 'checks_load.check_c17',
    'C18': 'checks_misc.check_c18',
    'C19': 'checks_misc.check_c19',
    'C20': 'checks_misc.check_c20',
}


def main():
    ap = argparse.ArgumentParser()
    ap.add_argument('prop')
    ap.add_argument('--tier', default=os.environ.get('VERIF_TIER', 'quick'), choices=['quick', 'thorough'])
    ap.add_argument('--replay')
    args = ap.parse_args()
    if args.prop not in CHECKS:
        print('unknown property %s' % args.prop)
        return 2
    modname, fn = CHECKS[args.prop].rsplit('.', 1)
    try:
        f = getattr(importlib.import_module(modname), fn)
        return f(args.tier, args.replay)
    except Exception:
        traceback.print_exc()
        print('MACHINERY-FAILURE property=%s' % args.prop)
        return 2


if __name__ == '__main__':
    sys.exit(main())

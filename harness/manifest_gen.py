"""Writes /verif/MANIFEST.json from the table below (single source of truth for the interface)."""
import json
import os

ROOT = os.path.dirname(os.path.dirname(os.path.abspath(__file__)))
ALL = ['C%02d' % i for i in range(1, 21)]

TRUST = ('Trusted: TLC 1.8 + CommunityModules; harness render/project (exercised by every vector); the anchor-rank '
         'abstraction of numbers (order-isomorphic); Python stdlib leaf codecs (base64, strftime, re).')

CHECKS = {
    'C01': dict(
        technique='TLA+ spec StoneSem (rule catalogue Violations/WellFormed) + StoneSemMC authoring machine explored by TLC; every finished model rendered to .stone text and compiled by specs_to_ir',
        text='Seven scenario universes (patches: targets, kinds, openness, clashes with own/inherited/descendant/other-patch members, two patches of one type; struct inheritance and field clashes; aliases and nullability incl. chains, cycles through '
             'List/nullable; namespaces and imports incl. self/unknown/mutual import and unimported or non-namespace qualifiers; '
             'unions open/closed with parents and tag clashes; enumerated subtypes; routes with versions, clashes and deprecation) '
             'enumerate every combination of legal choices and injected rule violations at every site (~2900 instances). TLC '
             'authors each instance in several orders / file splits / file orders (~1.4*10^5 states), checks OrderFree, '
             'CycleAgreement (operational in-progress-set resolution = declarative acyclicity) and DenoteClosed, and every finished '
             'model is replayed: specs_to_ir must return an Api iff WellFormed, and must fail only with InvalidSpec. StoneLitMC adds the '
             'value-against-type rules: 19 field types x 30 example expressions (ExFits), 15 route-attribute declarations x 14 values '
             '(AttrFits), 6 doc-reference tags x 776 payload shapes x 4 sites (RefFits), each compiled: accepted iff the rule accepts.',
        ref='3.3, 4 (C01), Appendix A'),
    'C02': dict(
        technique='TLA+ operator StoneSem!Denote evaluated by TLC on every accepted model of StoneSemMC; compared field by field with the projected stone.ir.Api',
        text='For every accepted model of the StoneSemMC scenarios the Api returned by specs_to_ir is projected (namespaces, types '
             'with parents, fields with written types / nullability / defaults, all_fields order, subtype tables and catch-all flag, '
             'union tags incl. the implicit other, all inherited tags, aliases, routes with versions and deprecation) and must equal '
             'Denote(model); alphabetical lists, both linearisations (parents and alias targets first) and closure (no forward '
             'reference left, every reachable type registered, acyclic inheritance) are checked on the real object graph.',
        ref='3.3, 4 (C02)'),
    'C03': dict(
        technique='TLA+ specs StoneLex (line-level lexer machine, model-checked) and StoneTok (token strings and token-edit actions) enumerated by TLC; every text replayed through the real Lexer, specs_to_ir and the command line',
        text='TLC enumerates every sequence of <= 3 (thorough 4) physical lines over a 33-letter alphabet and checks NoCrash, '
             'LayoutInvariance and Balanced on the lexer machine; every string of <= 3 (thorough 5) token classes after a namespace '
             'header; every single token edit (thorough: 16 slices of 1/160 of the edits at every step for 2- and 3-edit mutants) of four seed specs covering examples, '
             'patches, annotations, routes with attrs and versions, imports, enumerated subtypes. Each text is tokenised by the real '
             'Lexer (skeleton and recorded errors must equal StoneLex!OpLex) and compiled: the outcome must be an Api or InvalidSpec '
             'with a non-empty message and an input path; sampled failing texts go through python -m stone.cli (exit 1, path:line: error:). '
             'Plus the StoneLitMC cases (example expressions, route attribute values; thorough: doc references): a refusal must be a spec error.',
        ref='3.1, 3.2, 4 (C03)',
        note=TRUST + ' The specification contributes the input enumeration and the lexer crash conditions; which of the two outcomes a text gets is C01.'),
    'C04': dict(
        technique='TLA+ spec StoneWireMC (Enc/Dec/Vals) model-checked by TLC; every state replayed through generated Python classes',
        text='TLC explores every (schema, root type, boundary-biased valid value) of the StoneWireMC universe (76 schemas x 16 root '
             'types, ~3*10^4 states) and checks RoundTrip/Idempotent/ValuesAreValid on the documented wire format; each state is then '
             'replayed through the python_types output: value built with generated classes, encoded, decoded strict+lenient via both '
             'entry points, compared by runtime == and by projected abstract value, re-encoded. StoneWireWide evaluates the same operators and invariants on values '
             'recorded by a driver on the implementation side (random, depth 4, several optional fields, lists and maps of three) and the harness '
             'replays them the same way.',
        ref='3.5, 4 (C04)'),
    'C05': dict(
        technique='TLA+ reference encoder (StoneWire!Enc, written from docs/json_serializer.rst) evaluated by TLC on every state; compared with the real encoder',
        text='The document predicted by the TLA+ Enc operator (driven by the abstract schema, not by reflection tables) for every '
             'state of StoneWireMC is compared as type-strict parsed JSON with json_compat_obj_encode and json_encode output; likewise for the wider, '
             'deeper values recorded by harness/widegen.py and evaluated by StoneWireWide.',
        ref='3.5, 4 (C05)'),
    'C06': dict(
        technique='TLA+ reference decoder/classifier (StoneWire!Dec) + adversarial Tamper action explored by TLC; every document replayed into json_decode/json_compat_obj_decode',
        text='TLC enumerates every reference encoding and every one-edit tampering of it (drop/add key, replace by each JSON kind, '
             'push number/length across a bound, retag, non-ASCII text; 2-edit in thorough by simulation), classifies each as '
             'ok(v)/err/unspecified with the Dec operator, model-checks DecodedIsValid and StrictRefinesLenient, and the harness '
             'requires the real decoder to return exactly v, or raise ValidationError, and never any other exception.',
        ref='3.5, 4 (C06), Appendix B'),
    'C07': dict(
        technique='TLA+ spec StoneEvolveMC (edit actions producing version B; View/Lossy/Lift formalise docs/evolve_spec.rst) model-checked by TLC; every state replayed with two generated packages',
        text='TLC explores every history of compatible edits (quick: all 78 one-edit histories; thorough: all two-edit histories) applied at '
             'every site of a 12-type spec, every root type, boundary-biased and fully-populated values of the sender version, both '
             'directions, strict and lenient, and checks Forward (lenient A-decoding of a B-message = the A-view), StrictExact (strict '
             'A-decoding rejects exactly the lossy messages), Backward (B-decoding of an A-message = the same value, except through a tag '
             'changed from Void to a non-nullable type) against the wire rules of StoneWire; each state is replayed: version-B classes '
             'encode, version-A classes decode (and vice versa) and the projected result must equal the predicted view / rejection.',
        ref='3.6, 4 (C07)'),
    'C08': dict(
        technique='TLA+ spec StoneRuntimeMC (Accepts/Norm reference predicate + attribute get/set/delete machine) explored by TLC; every transition replayed on generated classes',
        text='TLC enumerates every (declared type of ~110: each numeric primitive with unset/extreme/extreme+-1/small bounds, strings with '
             'length and pattern, Bytes, Boolean, Timestamp, lists/maps/nullables of them, structs with subclasses, enumerated-subtype '
             'roots, unions and child unions, aliases incl. alias-of-nullable; slot state; operation; argument at bound-1/bound/bound+1 '
             'and every wrong Python kind) transition (~1.9*10^5), checks SlotHoldsDeclaredType/NormStable/WireValidAccepted on the model, '
             'and each transition is replayed: setattr/getattr/delattr on a generated struct, the generated union member constructor, '
             'json_compat_obj_decode of a primitive; accepted iff Accepts, refusal must be ValidationError, read-back must equal Norm.',
        ref='3.4, 4 (C08)'),
    'C09': dict(
        technique='TLA+ spec StoneLoadMC (module load machine with partial modules; PySurface derived from the API model) explored by TLC; every model generated, imported in fresh interpreters and introspected',
        text='TLC enumerates 129 API models and every namespace as first import, checks LoadIffAcyclic / NoLoadError (module-level '
             'execution with partially initialised modules succeeds iff no import cycle is reachable) and CtorCoversAllFields. Each model is '
             'generated with python_types; every first-import choice runs in a fresh interpreter; the imported modules are compared with '
             'PySurface: classes and Python bases, constructor parameter order, read/write/delete of every field incl. inherited ones, '
             'is_/get_/constructor helpers, ready void-tag instances, validators, alias bindings, route objects (name, version, deprecated, '
             'validators, attrs) and ROUTES.',
        ref='3.7, 4 (C09)'),
    'C10': dict(
        technique='TLA+ spec StoneDefaultsMC (documented compile-time rule CompileLit vs runtime rule StoneRuntime!Accepts; ExampleValue denotation of example declarations) explored by TLC; every state replayed through the compiler and the generated classes',
        text='TLC enumerates 22 field types x 46 default literals and checks DefaultsValid (every literal the documented rule accepts is a '
             'value the runtime rule accepts), and about 450 (type shape, example label) pairs over 12 slot types and checks ExamplesValid (the '
             'denoted value is valid, its document decodes strictly to it and encodes back). Replay: each default is compiled; whatever the '
             'real compiler accepts is read from the unset field of the generated class, compared with the declared default and assigned '
             'back (must be accepted); each computed example (get_examples) must equal the denoted document, decode strictly to the '
             'denoted value and re-encode to the same document.',
        ref='3.4, 4 (C10)'),
    'C11': dict(
        technique='TLA+ authoring machine StoneSemMC (WriteDef/Finish: every order, file split and file order are behaviours) explored by TLC with invariant OrderFree; all layouts of an instance compiled and compared',
        text='TLC checks on the model that verdict, rule attribution and denoted API are independent of definition order, of the split '
             'of a namespace over files and of file order (quick: ascending/descending/rotated x 3 splits x 2 file orders; thorough: all '
             'permutations). Every layout of every instance is compiled; the verdict, the projected Api and the bytes of the '
             'python_types, python_type_stubs and js_types output must coincide for all layouts of the same definitions.',
        ref='3.3, 4 (C11)',
        note=TRUST + ' Comment/blank-line/continuation layout and stdin delivery are not yet covered by this check (see DESIGN).'),
    'C12': dict(
        technique='TLA+ spec StoneRuns (process histories) enumerated by TLC; each history executed in a real process; the recorded log validated against the specification by TLC (StoneRunsTrace, total verdicts)',
        text='TLC enumerates process histories: hash seed x {fresh, after the same backend on another spec, after another backend on the same '
             'spec} x output directory x 19 backend rows x 3 spec sets (the second with inherited omitted callers and annotation chains, the third compiled with a route whitelist over cyclic, annotated types). Every history is executed in its own process with PYTHONHASHSEED '
             'set; each run logs a digest over relative paths and bytes of the files written. The log (ndjson) is read back by TLC: '
             'StoneRunsTrace reconstructs Generate as memo[backend row, spec set] and an event whose digest differs cannot be explained; '
             'failing events are collected (total verdict) and reported through a POSTCONDITION.',
        ref='3.11, 4 (C12)'),
    'C13': dict(
        technique='TLA+ spec StoneAnnotMC (permission- and redaction-aware Enc/Dec) model-checked by TLC; every state replayed through json_encode/json_decode',
        text='TLC explores every (24 schema variants placing Omitted/RedactedBlot/RedactedHash on struct fields, inherited, patched and '
             'subtype fields, union tags and aliases used directly, nullable, in lists, as map values and through alias-of-alias; 8 root '
             'types; values with unique sentinels below every redactor; every subset of the permissions as encoding and as decoding '
             'caller; redaction on/off) and checks NoOmittedLeak, NoRedactedLeak, OmittedNotSuppliable, PresentWithPermission on the '
             'documented rules; each state is replayed: the produced text is searched for omitted member names and sentinels and '
             'compared with the exact predicted document, and strict decoding per caller is compared with the predicted outcome.',
        ref='3.5, 4 (C13)'),
    'C14': dict(
        technique='TLA+ spec StoneLoadMC (Signature / CallShapes / Request) explored by TLC; every call shape issued on a recording subclass of the generated client',
        text='For every route of 129 models TLC enumerates every call shape (k leading positionals, remaining required by keyword, optional '
             'ones none/singly/all) and predicts the request; SignatureIsCtorOrder and CallsWellFormed are model-checked. Each call is made '
             'on the python_client output imported next to the python_types output: method name and parameters with spec defaults, exactly '
             'one request with the route object (identity), namespace, argument == struct built from distinct per-field values, upload '
             'body, DeprecationWarning iff deprecated, return value (None for Void).',
        ref='3.7, 4 (C14)'),
    'C15': dict(
        technique='TLA+ operators PySurface and Pep (Stone type -> PEP 484) evaluated by TLC on every model; compared with the ast of the generated .pyi and the introspected runtime module',
        text='For each of 129 models the stub of every namespace must parse (ast) and declare exactly the classes, bases, constructor '
             'parameters, field attributes, is_/get_/constructor helpers, void-tag attributes, validators, alias bindings and route objects '
             'of PySurface (which the runtime modules are checked against as well); every annotation must equal the Pep mapping computed '
             'by the specification and use only bound names.',
        ref='3.7, 4 (C15)'),
    'C16': dict(
        technique='TLA+ module StoneLoadMC (129 API models with declared surfaces computed by TLC) bound to js_types, js_client, tsd_types and tsd_client output: scanners for JSDoc typedefs and .d.ts declarations compare declared names, members, optionality and referenced type names with the surfaces; the generated JS is evaluated with node when present',
        text='For each of 128 loadable models (chains, foreign parents, argument kinds, deprecation, styles, nested alias/nullable/list '
             'types, inherited unions, subtype trees) the four JavaScript/TypeScript rows must complete, every struct/union/alias and route is '
             'declared exactly once under the naming scheme, members and optional markers equal the model, every referenced type name resolves '
             'to a declaration or builtin, and brackets/strings/comments are lexically balanced. No TypeScript compiler is available offline.',
        ref='3.7, 4 (C16)'),
    'C17': dict(
        technique='TLA+ module StoneLoadMC (129 API models, surfaces computed by TLC) bound to swift_types, swift_types --objc, swift_client, swift_client --objc, obj_c_types and obj_c_client output through a Swift scope scanner and an Objective-C interface scanner (harness/swiftcheck.py)',
        text='For each of 128 loadable models all six Swift/Objective-C rows must complete; each .swift/.h/.m file is lexed (terminated '
             'strings/comments/character literals, balanced brackets); no scope declares the same type, case, property or function signature '
             'twice and no @interface/@implementation repeats a property or selector; every namespace, struct, union, field, tag, serializer, '
             'route object and route function of the model is declared under the naming scheme; every qualified Swift user-type reference '
             '(Ns.Type[.case], DBXNsType) and every Objective-C identifier in class position resolves to a declaration in the output, a '
             'Foundation class or an SDK class named on the command line. No Swift or Objective-C compiler exists in the sandbox, so type '
             'checking beyond name resolution is out of reach.',
        ref='3.7, 4 (C17)'),
    'C18': dict(
        technique='TLA+ spec StoneEmit (path resolution by segment stack; emitter buffer machine with Escape/Format transcribed character by character vs reference pretty-printer; real vs manifest run of open/copy/write scripts) explored by TLC; every state replayed on real Backend subclasses',
        text='TLC enumerates all 2064 paths of 1-3 segments over {name, name, ., .., empty, non-ASCII} x {relative, absolute outside, absolute '
             'inside, absolute beside the root} x trailing slash and checks Contained; every emit script of <=3 (thorough 4) operations over '
             '30 operations (13 texts with braces, {0}, {x}, %, backslash, non-ASCII; indent/block contexts; named/positional placeholders; '
             'multiline lists) and checks Verbatim (escape-on-emit + str.format-at-close = reference lines) and EscapeFormatIdentity; all '
             'open/copy/swift-write scripts of <=3 operations and checks ManifestFidelity. Each state is replayed in a sandbox whose PARENT '
             'directory is snapshotted before and after: through output_to_relative_path, copy_to_path and the Swift writer; file bytes '
             'compared with the predicted text; manifest output compared with the files of the real run; plus all 19 built-in backend rows '
             'in real and manifest mode on two spec sets.',
        ref='3.8, 4 (C18)'),
    'C19': dict(
        technique='TLA+ spec StoneCli (precedence parser ParseModel + three-valued Eval + pruning pipeline with error exits) explored by TLC; every state replayed through stone.cli.main with a recording backend',
        text='TLC enumerates filter strings (all atom (and|or atom)* of <=3 atoms, thorough 4, one optional parenthesised sub-range, every '
             'single-token deletion), every subset of known and unknown namespaces for -w / -b and of known and unknown attributes and '
             ':all for -a, and checks Precedence (and over or, left association), OuterParensNeutral, AbsentIsNull, ErrorsNotIgnored and '
             'NamespacesKeepOnlySelected. Each state is replayed in-process through stone.cli.main on a 4-namespace spec whose 8 routes '
             'cover all attribute value combinations; a recording .stoneg.py backend dumps the Api it receives: surviving routes, visible '
             'attributes and values, route schema, retained types and the by-name tables must equal the prediction; malformed filters, '
             'unknown namespaces and unknown attributes must exit non-zero with a message and without running the backend.',
        ref='3.9, 4 (C19)'),
    'C20': dict(
        technique='TLA+ spec StoneWhitelist (declarative Closure vs operational depth-first traversal with seen set) model-checked by TLC; every state replayed through specs_to_ir(route_whitelist_filter) and python_types',
        text='A skeleton spec of 10 types, an alias and 4 routes in two namespaces has 14 individually switchable dependency edges '
             'covering every edge kind of the property. TLC explores edge sets (quick: <=2 or >=12 edges on; thorough: <=4 or >=10) x 39 '
             'whitelists (route subsets incl. *, data-type subsets, both namespaces) and checks ContainsSeeds, Closed, Minimal and OpAgrees '
             '(the traversal of the implementation computes the closure). Each state is replayed: retained types and routes must equal '
             'the closure, no retained field/parent/subtype list/alias target/route signature may point to a removed type (real object '
             'graph), and the python_types output of the filtered Api must import.',
        ref='3.10, 4 (C20)'),
}

NOT_YET = 'check not built yet in this round (work in progress; see DESIGN.md section 9)'


def main():
    checks = []
    for pid in ALL:
        if pid not in CHECKS:
            continue
        c = CHECKS[pid]
        checks.append({
            'property_id': pid,
            'quick_cmd': './check %s --tier quick' % pid,
            'thorough_cmd': './check %s --tier thorough' % pid,
            'evidence_file': '/verif/evidence/%s.json' % pid,
            'replay_cmd_template': './check %s --replay {path}' % pid,
            'engine': 'tlc',
            'level_claimed': {'category': 'model_checking', 'text': c['text'], 'design_ref': c['ref']},
            'level_note': c.get('note', TRUST),
            'technique': c['technique'],
        })
    na = [{'property_id': p, 'reason': NA.get(p, NOT_YET)} for p in ALL if p not in CHECKS]
    man = {
        'version': 1,
        'setup_cmd': '/venv/bin/python harness/tlc.py',
        'hooks': {
            'guard': 'STONE_VERIF_HOOKS',
            'enable': 'none needed: no source hooks; the harness observes public entry points and subclasses public classes at run time',
            'baseline_off_cmd': 'cd /repo && /venv/bin/python -m pytest -ra -q -p no:cacheprovider --timeout=900 --continue-on-collection-errors',
            'source_commits': [],
            'add_only': True,
        },
        'engines': [
            {'name': 'tlc', 'path': '/opt/veriftools/tla/tla2tools.jar', 'serves_properties': sorted(CHECKS),
             'kind_free_text': 'explicit-state model checker for the TLA+ specifications under /verif/specs; vectors printed by TLC are replayed into dropbox/stone by /verif/harness'},
        ],
        'checks': checks,
        'not_applicable': na,
        'notes': 'All checks: ./check <ID> --tier quick|thorough. Exit 0 held, 1 violation (VIOLATION line), 2 machinery failure. '
                 'known_findings.json lists recorded departures and fixed defects.',
    }
    with open(os.path.join(ROOT, 'MANIFEST.json'), 'w') as f:
        json.dump(man, f, indent=1)


NA = {}

if __name__ == '__main__':
    main()

#!/bin/sh
# Re-run every stored seeded change against the quick check of its property in a scratch worktree; each must be reported (exit 1).
wt=/tmp/wt/regress
git -C /repo worktree remove --force $wt 2>/dev/null
git -C /repo worktree add -q --detach $wt HEAD || exit 2
rc=0
for d in /verif/seeded/*/; do
  name=$(basename $d); id=${name%%-*}
  ( cd $wt && git checkout -q -- . && git apply $d/patch.diff ) || { echo "$name: patch does not apply"; rc=1; continue; }
  r=$(/verif/harness/seedtest_wt.sh $wt $id)
  case "$r" in *"exit=1"*) echo "$name caught: $(echo "$r" | head -1 | cut -c1-200)";; *) echo "$name MISSED: $r"; rc=1;; esac
done
git -C /repo worktree remove --force $wt
rm -rf /tmp/seedout/regress
exit $rc

"""C01 C02 C11 judge: StoneSemMC models rendered to .stone text and compiled by the real frontend."""
import hashlib
import json
import os
import shutil
import tempfile

from runner import Judge


# ------------------------------------------------------------------ render
def render_ref(r):
    if r['k'] == 'voidtag':
        return ''
    s = (r['ns'] + '.' if r['ns'] else '') + r['n']
    if r['arg']['k'] == 'tref':
        s += '(%s)' % render_ref(r['arg'])
    if r['nullable']:
        s += '?'
    return s


def default_literal(t):
    base = t['n']
    return {'Int32': '1', 'String': '"x"', 'Boolean': 'true'}.get(base, '1')


# the documentation text of a member, as it is WRITTEN in the spec (escaped backslashes followed by the letters n and t,
# an escaped quote) and as it is MEANT (what the Api must carry)
DOC_TEXT = 'Doc %s: C:\\\\new\\\\temp \\"q\\".'
DOC_MEANT = 'Doc %s: C:\\new\\temp "q".'


def member_extras(m, indent):
    out = []
    if m.get('ann'):
        out.append(' ' * indent + '@' + m['ann'])
    if m.get('doc'):
        out.append(' ' * indent + '"%s"' % (DOC_TEXT % m['doc']))
    return out


def uses_ann(d):
    return [m['ann'] for m in _seq(d.get('fields')) + _seq(d.get('tags')) if isinstance(m, dict) and m.get('ann')]


def render_def(d):
    k = d['k']
    out = []
    if k == 'import':
        out.append('import %s' % d['target'])
    elif k == 'alias':
        out.append('alias %s = %s' % (d['n'], render_ref(d['t'])))
    elif k == 'struct':
        hdr = 'struct %s' % d['n']
        if d['ext']['k'] == 'tref':
            hdr += ' extends ' + render_ref(d['ext'])
        out.append(hdr)
        if d['hassubs']:
            out.append('    union' if d['catchall'] else '    union_closed')
            for s in d['subs']:
                out.append('        %s %s' % (s['n'], render_ref(s['t'])))
        for f in d['fields']:
            line = '    %s %s' % (f['n'], render_ref(f['t']))
            if f['dflt']:
                line += ' = ' + default_literal(f['t'])
            out.append(line)
            out += member_extras(f, 8)
        for e in _seq(d.get('examples')):
            out.append('    example %s' % e['label'])
            for a in _seq(e['assigns']):
                out.append('        %s = %s' % (a['n'], {'int': '1', 'str': '"x"', 'null': 'null'}[a['lit']]))
    elif k == 'union':
        hdr = ('union_closed ' if d['closed'] else 'union ') + d['n']
        if d['ext']['k'] == 'tref':
            hdr += ' extends ' + render_ref(d['ext'])
        out.append(hdr)
        for t in d['tags']:
            out.append(('    %s %s' % (t['n'], render_ref(t['t']))).rstrip())
            out += member_extras(t, 8)
    elif k == 'route':
        name = d['n'] + (':%d' % d['ver'] if d['ver'] != 1 else '')
        line = 'route %s(%s, %s, %s)' % (name, render_ref(d['arg']), render_ref(d['res']), render_ref(d['err']))
        dep = d['dep']
        if dep['k'] == 'deprecated':
            line += ' deprecated'
        elif dep['k'] == 'by':
            line += ' deprecated by %s' % (dep['n'] + (':%d' % dep['ver'] if dep['ver'] != 1 else ''))
        out.append(line)
    elif k == 'patch':
        if d['pk'] == 'struct':
            out.append('patch struct %s' % d['n'])
            for f in _seq(d['fields']):
                line = '    %s %s' % (f['n'], render_ref(f['t']))
                if f['dflt']:
                    line += ' = ' + default_literal(f['t'])
                out.append(line)
        else:
            out.append('patch %s %s' % ('union_closed' if d['closed'] else 'union', d['n']))
            for t in _seq(d['fields']):
                out.append(('    %s %s' % (t['n'], render_ref(t['t']))).rstrip())
    else:
        raise ValueError(d)
    return '\n'.join(out) + '\n'


def render_model(files):
    specs = []
    count = {}
    for f in files:
        count[f['ns']] = count.get(f['ns'], 0) + 1
        name = '%s_%d.stone' % (f['ns'], count[f['ns']])
        text = 'namespace %s\n\n' % f['ns']
        if count[f['ns']] == 1:
            # the annotations the members of this namespace use are defined once, in its first file
            anns = sorted({a for g in files if g['ns'] == f['ns'] for d in _seq(g['defs']) for a in uses_ann(d)})
            for a in anns:
                text += 'annotation %s = %s()\n' % (a, {'Dep': 'Deprecated', 'Prev': 'Preview'}[a])
            if anns:
                text += '\n'
        text += '\n'.join(render_def(d) for d in _seq(f['defs']))
        specs.append((name, text))
    return specs


def _seq(x):
    return x if isinstance(x, list) else []


# ------------------------------------------------------------------ project
def project_type(dt, cur_ns):
    from stone.ir import data_types as T
    nullable = False
    if isinstance(dt, T.Nullable):
        nullable = True
        dt = dt.data_type
    arg = {'k': 'noref'}
    if isinstance(dt, (T.UserDefined, T.Alias)):
        ns = dt.namespace.name
        return {'k': 'tref', 'ns': '' if ns == cur_ns else ns, 'n': dt.name, 'nullable': nullable, 'arg': arg}
    if isinstance(dt, T.List):
        arg = project_type(dt.data_type, cur_ns)
    return {'k': 'tref', 'ns': '', 'n': dt.name, 'nullable': nullable, 'arg': arg}


def project_doc(raw):
    if not raw:
        return ''
    m = __import__('re').match(r'^Doc (\w+):', raw.strip())
    return m.group(1) if m and raw.strip() == DOC_MEANT % m.group(1) else 'unexpected:' + raw


def project_ann(f):
    return 'Dep' if getattr(f, 'deprecated', False) else 'Prev' if getattr(f, 'preview', False) else ''


def project_api(api):
    from stone.ir import data_types as T
    out = []
    for ns in api.namespaces.values():
        if ns.name == 'stone_cfg':
            continue
        types, aliases, routes = [], [], []
        for dt in ns.data_types:
            parent = [dt.parent_type.namespace.name, dt.parent_type.name] if dt.parent_type else []
            if isinstance(dt, T.Struct):
                subs = []
                if dt.has_enumerated_subtypes():
                    subs = [{'tag': f.name, 'sub': f.data_type.name} for f in dt.get_enumerated_subtypes()]
                chain = []
                c = dt
                while c:
                    chain.append(c)
                    c = c.parent_type
                types.append({'k': 'struct', 'n': dt.name, 'parent': parent,
                              'fields': [{'n': f.name, 't': project_type(f.data_type, ns.name), 'dflt': f.has_default,
                                          'doc': project_doc(f.raw_doc), 'ann': project_ann(f)}
                                         for f in dt.fields],
                              'all_fields': [f.name for c in chain[::-1] for f in c.fields],
                              'subs': subs, 'hassubs': dt.has_enumerated_subtypes(),
                              'catchall': bool(dt.has_enumerated_subtypes() and dt.is_catch_all()),
                              'examples': sorted(dt.get_examples().keys())})
            else:
                own = [f for f in dt.fields]
                types.append({'k': 'union', 'n': dt.name, 'parent': parent, 'closed': dt.closed,
                              'tags': [f.name for f in own],
                              'tagtypes': [({'k': 'voidtag'} if isinstance(f.data_type, T.Void)
                                            else project_type(f.data_type, ns.name)) for f in own if not f.catch_all],
                              'tagmeta': [{'doc': project_doc(f.raw_doc), 'ann': project_ann(f)} for f in own if not f.catch_all],
                              'all_tags': [f.name for f in dt.all_fields if not f.catch_all],
                              'examples': sorted(dt.get_examples().keys())})
        for a in ns.aliases:
            aliases.append({'k': 'alias', 'n': a.name, 't': project_type(a.data_type, ns.name)})
        for r in ns.routes:
            by = []
            if r.deprecated is not None and r.deprecated.by is not None:
                by = [r.deprecated.by.name, r.deprecated.by.version]
            routes.append({'k': 'route', 'n': r.name, 'ver': r.version,
                           'arg': project_type(r.arg_data_type, ns.name),
                           'res': project_type(r.result_data_type, ns.name),
                           'err': project_type(r.error_data_type, ns.name),
                           'deprecated': r.deprecated is not None, 'by': by})
        out.append({'ns': ns.name, 'types': types, 'aliases': aliases, 'routes': routes})
    return out


def _reorder(items, groups, name=lambda x: x):
    """Members added by several patches of one type follow the type's own members in file order; put that block into
    the order of `groups` (the order StoneSem!CanonPatches chose) so that layouts can be compared."""
    members = [n for g in groups for n in g]
    idx = [i for i, it in enumerate(items) if name(it) in members]
    if len(idx) != len(members) or (idx and idx != list(range(idx[0], idx[0] + len(idx)))):
        return items, None                      # not a contiguous block of exactly these members: leave it to the comparison
    by = {name(items[i]): items[i] for i in idx}
    observed = tuple(name(items[i]) for i in idx)
    out = list(items)
    out[idx[0]:idx[0] + len(idx)] = [by[n] for n in members] if idx else []
    return out, observed


def patch_canon(got, exp):
    """Bring the members contributed by several patches into canonical order in a projected Api; returns the observed
    patch orders (for C11: backend output is only compared between layouts that put the patches in the same order)."""
    observed = []
    for ge, gg in zip(exp, got):
        for te in ge['types']:
            groups = [_seq(g) for g in _seq(te.get('patch_groups'))]
            if len(groups) < 2:
                continue
            for tg in gg['types']:
                if tg['n'] == te['n']:
                    if tg['k'] == 'struct':
                        tg['fields'], o = _reorder(tg['fields'], groups, lambda f: f['n'])
                    else:
                        pairs = list(zip(tg['tags'], tg['tagtypes'] + [None] * (len(tg['tags']) - len(tg['tagtypes']))))
                        pairs, o = _reorder(pairs, groups, lambda p_: p_[0])
                        tg['tags'] = [p_[0] for p_ in pairs]
                        tg['tagtypes'] = [p_[1] for p_ in pairs if p_[1] is not None]
                    observed.append((te['n'], o))
                for key in ('all_fields', 'all_tags'):
                    if key in tg:
                        tg[key], _ = _reorder(tg[key], groups)
    return tuple(observed)


def canon(x):
    """Order-free canonical JSON for comparing set-valued parts."""
    return json.dumps(x, sort_keys=True)


def norm_denote(den):
    """The TLA+ Denote (sets printed as arrays, parent as tuple) in the shape of project_api."""
    out = []
    for nsd in den:
        def fix(d):
            d = dict(d)
            d.pop('imports', None)
            if 'parent' in d:
                d['parent'] = list(d['parent']) if d['parent'] else []
            for key in ('fields', 'subs', 'tags', 'tagtypes', 'tagmeta', 'all_fields', 'all_tags', 'by', 'examples', 'patch_groups'):
                if key in d and not isinstance(d[key], list):
                    d[key] = []
            if 'examples' in d:
                d['examples'] = sorted(d['examples'])
            return d
        out.append({'ns': nsd['ns'],
                    'types': sorted((fix(t) for t in _seq(nsd['types'])), key=lambda t: t['n']),
                    'aliases': sorted((fix(t) for t in _seq(nsd['aliases'])), key=lambda t: t['n']),
                    'routes': sorted((fix(t) for t in _seq(nsd['routes'])), key=lambda t: (t['n'], t['ver']))})
    return sorted(out, key=lambda n: n['ns'])


def ordering_problems(api):
    """C02 'Ordered' and 'Closed' on the real object graph."""
    from stone.ir import data_types as T
    probs = []
    names = list(api.namespaces.keys())
    if names != sorted(names):
        probs.append('namespaces not alphabetical: %s' % names)
    for ns in api.namespaces.values():
        dn = [d.name for d in ns.data_types]
        if dn != sorted(dn):
            probs.append('data types of %s not alphabetical: %s' % (ns.name, dn))
        an = [a.name for a in ns.aliases]
        if an != sorted(an):
            probs.append('aliases of %s not alphabetical: %s' % (ns.name, an))
        rn = [(r.name, r.version) for r in ns.routes]
        if rn != sorted(rn):
            probs.append('routes of %s not sorted: %s' % (ns.name, rn))
        lin = ns.linearize_data_types()
        pos = {id(d): i for i, d in enumerate(lin)}
        if sorted(d.name for d in lin) != sorted(dn):
            probs.append('linearize_data_types of %s is not a permutation of data_types' % ns.name)
        for d in lin:
            p = d.parent_type
            if p is not None and p.namespace is ns and pos.get(id(p), -1) > pos[id(d)]:
                probs.append('linearization of %s puts %s before its parent %s' % (ns.name, d.name, p.name))
        la = ns.linearize_aliases()
        apos = {id(a): i for i, a in enumerate(la)}
        for a in la:
            t = a.data_type
            if isinstance(t, T.Nullable):
                t = t.data_type
            if isinstance(t, T.Alias) and t.namespace is ns and apos.get(id(t), -1) > apos[id(a)]:
                probs.append('alias linearization of %s puts %s before its target %s' % (ns.name, a.name, t.name))
        for d in ns.data_types:
            if d._is_forward_ref:
                probs.append('%s.%s left as a forward reference' % (ns.name, d.name))
            seen = set()
            c = d
            while c is not None:
                if id(c) in seen:
                    probs.append('inheritance cycle through %s' % d.name)
                    break
                seen.add(id(c))
                c = c.parent_type
            for f in d.all_fields:
                t = f.data_type
                while isinstance(t, (T.Nullable, T.List, T.Alias)):
                    t = t.data_type
                if isinstance(t, T.UserDefined) and t not in t.namespace.data_types:
                    probs.append('%s.%s.%s refers to %s which is not registered in its namespace'
                                 % (ns.name, d.name, f.name, t.name))
    return probs


class SemJudge(Judge):
    """params: {'prop': 'C01'|'C02'|'C11'}"""

    def __init__(self, params):
        super().__init__(params)
        self.prop = params['prop']
        self.by_inst = {}
        self.rules = {}

    def compile(self, files):
        from stone.frontend.frontend import specs_to_ir
        from stone.frontend.exception import InvalidSpec
        specs = render_model(files)
        try:
            api = specs_to_ir(specs)
            return specs, ('api', api)
        except InvalidSpec as e:
            return specs, ('invalid', e)
        except RecursionError as e:
            return specs, ('exc', e)
        except Exception as e:
            return specs, ('exc', e)

    def on_vec(self, tag, obj):
        if tag != 'VEC':
            return
        self.n += 1
        files = obj['files']
        specs, out = self.compile(files)
        ctx = {'vector': obj, 'specs': specs}
        for r in _seq(obj['violations']):
            self.count('rule_' + r)
        if obj['wellformed']:
            self.count('wellformed')
        if self.prop == 'C03':
            # only the outcome type matters here: an Api or a spec error
            self.judged += 1
            if out[0] == 'exc':
                e = out[1]
                self.violation('exc_%s' % type(e).__name__,
                               'frontend raised %s instead of a spec error: %s (rules broken: %s)'
                               % (type(e).__name__, str(e)[:200], obj['violations']), ctx)
            return
        if out[0] == 'exc' and self.prop in ('C01',):
            e = out[1]
            self.violation('exc_%s' % type(e).__name__,
                           'frontend raised %s instead of a spec error: %s (rules broken: %s)'
                           % (type(e).__name__, str(e)[:200], obj['violations']), ctx)
            return
        if self.prop == 'C01':
            self.judged += 1
            if self.judged % 1999 == 1:
                self.sample({'specs': specs, 'wellformed': obj['wellformed'], 'violations': obj['violations']})
            if obj['wellformed'] and out[0] != 'api':
                self.violation(None, 'legal spec refused: %s' % str(out[1])[:300], ctx)
            elif not obj['wellformed'] and out[0] == 'api':
                self.violation(rule_class(obj), 'spec breaking rule(s) %s accepted' % obj['violations'], ctx)
        elif self.prop == 'C02':
            if not obj['wellformed'] or out[0] != 'api':
                self.skip('not_accepted')
                return
            self.judged += 1
            got = project_api(out[1])
            exp = norm_denote(obj['denote'])
            got = sorted(got, key=lambda n: n['ns'])
            for g in got:
                g['types'].sort(key=lambda t: t['n'])
                g['aliases'].sort(key=lambda t: t['n'])
                g['routes'].sort(key=lambda t: (t['n'], t['ver']))
            if self.judged % 499 == 1:
                self.sample({'specs': specs, 'api': got})
            patch_canon(got, exp)
            for nsd in exp:
                for t in nsd['types']:
                    t.pop('patch_groups', None)
            if canon(got) != canon(exp):
                self.violation(None, 'API description differs from the declared model: %s'
                               % first_diff(exp, got), ctx, got)
            probs = ordering_problems(out[1])
            if probs:
                self.violation(None, 'ordering/closure: %s' % probs[0], ctx, probs)
        elif self.prop == 'C11':
            self.judged += 1
            key = (obj['scenario'], obj['inst'])
            order = ()
            if out[0] == 'api':
                got = sorted(project_api(out[1]), key=lambda n: n['ns'])
                for g in got:
                    g['types'].sort(key=lambda t: t['n'])
                # members of several patches keep file order: the description is compared modulo that order, the
                # backend output only between layouts that put the patches in the same order
                order = patch_canon(got, norm_denote(obj['denote'])) if obj['wellformed'] else ()
                sig = ('api', canon(got), backend_digest(out[1]))
            elif out[0] == 'invalid':
                sig = ('invalid',)
            else:
                sig = ('exc', type(out[1]).__name__)
            if key not in self.by_inst:
                self.by_inst[key] = (sig, specs, {order: sig[2] if sig[0] == 'api' else None})
                self.count('instances')
            else:
                first, fspecs, digests = self.by_inst[key]
                if first[0] != sig[0]:
                    self.violation(None, 'same definitions, different layout: one order is %s, another is %s'
                                   % (first[0], sig[0]), {'vector': obj, 'specs': specs, 'other_specs': fspecs})
                elif sig[0] == 'api' and first[1] != sig[1]:
                    self.violation(None, 'same definitions, different layout: API description differs',
                                   {'vector': obj, 'specs': specs, 'other_specs': fspecs})
                elif sig[0] == 'api':
                    if order not in digests:
                        digests[order] = sig[2]
                    elif digests[order] != sig[2]:
                        self.violation(None, 'same definitions, different layout: backend output differs',
                                       {'vector': obj, 'specs': specs, 'other_specs': fspecs})


def rule_class(obj):
    v = sorted(_seq(obj['violations']))
    return 'accepted_' + '_'.join(v)


def first_diff(a, b, path=''):
    if type(a) is not type(b):
        return '%s: %r vs %r' % (path, a, b)
    if isinstance(a, dict):
        for k in sorted(set(a) | set(b)):
            if k not in a or k not in b:
                return '%s.%s missing on one side' % (path, k)
            d = first_diff(a[k], b[k], path + '.' + k)
            if d:
                return d
        return ''
    if isinstance(a, list):
        if len(a) != len(b):
            return '%s: length %d vs %d (%r vs %r)' % (path, len(a), len(b), a, b)
        for i, (x, y) in enumerate(zip(a, b)):
            d = first_diff(x, y, '%s[%d]' % (path, i))
            if d:
                return d
        return ''
    return '' if a == b else '%s: %r vs %r' % (path, a, b)


_BACKENDS = None


def backend_digest(api):
    """Bytes of the python_types and tsd_types output for this Api (C11: every backend's output)."""
    import importlib
    from stone.compiler import Compiler
    tmp = tempfile.mkdtemp(prefix='verif-c11-')
    try:
        h = hashlib.sha1()
        for name, args in (('python_types', ['-p', 'pk']), ('python_type_stubs', ['-p', 'pk']),
                           ('js_types', ['t.js'])):
            out = os.path.join(tmp, name)
            mod = importlib.import_module('stone.backends.' + name)
            try:
                Compiler(api, mod, args, out).build()
            except Exception as e:      # backend failures are C09/C16 matters; record the class only
                h.update(('%s:%s' % (name, type(e).__name__)).encode())
                continue
            for root, _, fs in sorted(os.walk(out)):
                for f in sorted(fs):
                    h.update(os.path.relpath(os.path.join(root, f), out).encode())
                    with open(os.path.join(root, f), 'rb') as fh:
                        h.update(fh.read())
        return h.hexdigest()
    finally:
        shutil.rmtree(tmp, ignore_errors=True)

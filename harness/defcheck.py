"""C10 judge: StoneDefaultsMC vectors (defaults, examples) replayed through the compiler and the generated runtime."""
import json

from anchors import INT_ANCHORS, FLOAT_ANCHORS
from runner import Judge
from stonegen import Generated, render_schema, render_type, fmt_float, PATTERNS
from wire import Binder, Unprojectable, doc_to_json, json_strict_eq, norm_abs


def render_lit(l):
    k = l['k']
    if k == 'lint':
        return str(INT_ANCHORS[l['r']])
    if k == 'lfloat':
        return fmt_float(FLOAT_ANCHORS[l['r']])
    if k == 'lbool':
        return 'true' if l['b'] else 'false'
    if k == 'ltag':
        return l['n']
    if k == 'lnull':
        return 'null'
    if k == 'lts':
        return '"2015-05-12T15:50:38Z"' if l['ok'] else '"notatime"'
    if k == 'lstr':
        return '"%s"' % lit_str(l)
    raise ValueError(l)


def lit_str(l):
    n = l['len']
    if n == 0:
        return ''
    if l['full']:
        return 'a' * n if n < 3 else 'a ' + 'a' * (n - 2)      # longer texts contain a space
    if l['prefix']:
        return ('a' * (n - 1) if n < 4 else 'a ' + 'a' * (n - 3)) + 'Z'
    return 'Z' + 'a' * (n - 1)


class DefaultsJudge(Judge):
    def __init__(self, params):
        super().__init__(params)
        from stone.backends.python_rsrc import stone_serializers as ss, stone_validators as bv
        self.ss, self.bv = ss, bv
        self.seen = set()

    def on_vec(self, tag, obj):
        if tag != 'VEC':
            return
        obj = norm_abs(obj)
        key = json.dumps(obj, sort_keys=True)
        if key in self.seen:
            return
        self.seen.add(key)
        self.n += 1
        if obj['mode'] == 'default':
            self.judge_default(obj)
        elif obj['mode'] == 'example':
            self.judge_example(obj)

    # ------------------------------------------------------------------ defaults
    def judge_default(self, obj):
        from stone.frontend.frontend import specs_to_ir
        from stone.frontend.exception import InvalidSpec
        l, t, schema = obj['lit'], obj['t'], obj['schema']
        if l['k'] == 'lstr' and l['prefix'] and not l['full'] and l['len'] < 2:
            self.skip('unrenderable_literal')
            return
        specs = dict(render_schema(schema, extra_refs=[t]))
        specs['nsa.stone'] += '\nstruct Dflt\n    f %s = %s\n' % (render_type(t, 'nsa', schema), render_lit(l))
        specs = sorted(specs.items())
        ctx = {'vector': obj, 'specs': specs}
        what = 'default %s on a field of type %s' % (render_lit(l), render_type(t, 'nsa', schema))
        try:
            api = specs_to_ir(specs)
            accepted = True
        except InvalidSpec:
            accepted = False
        except Exception as e:
            self.violation('compile_exc_%s' % type(e).__name__, 'compiling %s raised %s: %s' % (what, type(e).__name__, str(e)[:120]), ctx)
            return
        self.judged += 1
        if self.judged % 199 == 1:
            self.sample({'field': render_type(t, 'nsa', schema), 'default': render_lit(l), 'compiler_accepts': accepted,
                         'documented_rule': obj['compile']})
        if not accepted:
            if obj['compile'] == 'acc':
                self.violation(None, 'legal %s refused by the compiler' % what, ctx)
            self.count('refused')
            return
        self.count('accepted')
        if self.params.get('prop') == 'C01':
            # accepts exactly the legal specs: a default the documented rule refuses must not compile
            if obj['compile'] == 'rej':
                self.violation('illegal_default_accepted', 'illegal %s accepted by the compiler' % what, ctx)
            return
        # whatever the compiler accepts must be valid for the generated class
        try:
            gen = Generated(specs, api=api)
        except Exception as e:
            self.violation('gen_exc_%s' % type(e).__name__, 'python_types failed on accepted %s: %s: %s'
                           % (what, type(e).__name__, str(e)[:150]), ctx)
            return
        try:
            nsa = gen.module('nsa')
            inst = nsa.Dflt()
            got = inst.f
            try:
                probe = nsa.Dflt()
                probe.f = got
            except self.bv.ValidationError as e:
                cls = 'default_refused_by_runtime_%s' % self.classify(t, l)
                self.violation(cls, 'the compiler accepts %s but the generated class refuses that value (%r): %s'
                               % (what, got, str(e)[:100]), ctx)
                return
            if obj['compile'] == 'acc':
                if not self.value_eq(obj['value'], got, gen, schema):
                    self.violation(None, 'unset field with %s reads %r, expected the declared default' % (what, got), ctx)
            elif obj['compile'] == 'rej':
                self.skip('compiler_more_permissive_than_documented')
        except Exception as e:
            self.violation('exc_%s' % type(e).__name__, 'exercising %s raised %s: %s' % (what, type(e).__name__, str(e)[:150]), ctx)
        finally:
            gen.close()

    def classify(self, t, l):
        if l['k'] == 'lstr':
            return 'pattern_prefix' if (l['prefix'] and not l['full']) else 'string'
        if l['k'] == 'lts':
            return 'timestamp_as_text'
        return l['k']

    def value_eq(self, exp, got, gen, schema):
        k = exp['k']
        if k == 'int':
            return type(got) is int and got == INT_ANCHORS[exp['r']]
        if k == 'float':
            return isinstance(got, (int, float)) and not isinstance(got, bool) and got == FLOAT_ANCHORS[exp['r']]
        if k == 'str':
            n = exp['len']
            full = lit_str({'len': n, 'full': True, 'prefix': True})
            return got == ('' if n == 0 else (full if exp['ok'] else None)) or (not exp['ok'] and isinstance(got, str) and len(got) == n)
        if k == 'bool':
            return got is exp['b']
        if k == 'obj':
            binder = Binder(schema, gen)
            cls = binder.cls(exp['c'])
            return getattr(got, '_tag', None) == exp['tag'] and issubclass(cls, type(got))
        if k == 'dt':
            import datetime
            return got == datetime.datetime(2015, 5, 12, 15, 50, 38)
        return False

    # ------------------------------------------------------------------ examples
    def judge_example(self, obj):
        from stone.frontend.frontend import specs_to_ir
        schema, n, label = obj['schema'], obj['n'], obj['label']
        key = ('pkg', obj['slot'])
        if getattr(self, '_pkg_key', None) != key:
            if getattr(self, '_gen', None):
                self._gen.close()
            specs = render_schema(schema, examples=obj['examples'])
            self._specs = specs
            try:
                self._api = specs_to_ir(list(specs))
                self._gen = Generated(specs)
                self._err = None
            except Exception as e:
                self._api = self._gen = None
                self._err = e
            self._pkg_key = key
        ctx = {'vector': {k: v for k, v in obj.items() if k not in ('schema', 'examples')}, 'specs': self._specs}
        if self._err is not None:
            self.violation('example_compile_%s' % type(self._err).__name__, 'spec with valid examples refused / crashed: %s: %s'
                           % (type(self._err).__name__, str(self._err)[:200]), ctx)
            return
        self.judged += 1
        what = 'example %s of %s' % (label, n)
        dt = self._api.namespaces[schema[n]['ns']].data_type_by_name[n]
        exs = dt.get_examples()
        if label not in exs:
            self.violation(None, '%s is not among the computed examples %s' % (what, sorted(exs)), ctx)
            return
        got_doc = json.loads(json.dumps(exs[label].value))
        exp_doc = doc_to_json(obj['doc'])
        if self.judged % 97 == 1:
            self.sample({'type': n, 'label': label, 'computed_example': got_doc})
        if not json_strict_eq(_intfloat(got_doc), _intfloat(exp_doc)):
            self.violation(None, 'computed %s is %s, the declarations denote %s' % (what, json.dumps(got_doc)[:200], json.dumps(exp_doc)[:200]), ctx)
            return
        if schema[n]['k'] == 'union' and label == 'other':
            self.skip('catch_all_example')
            return
        binder = Binder(schema, self._gen)
        val = binder.validator(n)
        root = {'k': 'ref', 'n': n}
        try:
            dec = self.ss.json_compat_obj_decode(val, json.loads(json.dumps(got_doc)), strict=True)
        except Exception as e:
            self.violation(None, 'computed %s does not decode strictly: %s: %s (%s)' % (what, type(e).__name__, str(e)[:120], json.dumps(got_doc)[:160]), ctx)
            return
        try:
            proj = binder.from_py(root, dec)
            if proj != obj['value']:
                self.violation(None, 'decoded %s differs from the value the example denotes' % what, ctx, proj)
        except Unprojectable as e:
            self.violation(None, 'decoded %s is not a valid value: %s' % (what, e), ctx)
            return
        enc = json.loads(json.dumps(self.ss.json_compat_obj_encode(val, dec)))
        if not json_strict_eq(_intfloat(enc), _intfloat(got_doc)):
            self.violation(None, '%s does not encode back to the same document: %s vs %s'
                           % (what, json.dumps(enc)[:200], json.dumps(got_doc)[:200]), ctx)

    def finish(self):
        if getattr(self, '_gen', None):
            self._gen.close()


def _intfloat(j):
    """examples may write 1 for 1.0 in a float position: compare numbers by value"""
    if isinstance(j, bool):
        return j
    if isinstance(j, (int, float)):
        return float(j)
    if isinstance(j, dict):
        return {k: _intfloat(v) for k, v in j.items()}
    if isinstance(j, list):
        return [_intfloat(v) for v in j]
    return j


class ExampleOrderJudge(Judge):
    """C11: the computed examples of a schema do not depend on the order of its definitions or of its files."""

    def __init__(self, params):
        super().__init__(params)
        self.done = set()

    def on_vec(self, tag, obj):
        if tag != 'VEC' or obj.get('mode') != 'example' or obj['slot'] in self.done:
            return
        from wire import norm_abs
        from stone.frontend.frontend import specs_to_ir
        self.done.add(obj['slot'])
        obj = norm_abs(obj)
        self.n += 1
        outs = []
        layouts = []
        for rev_defs in (False, True):
            for rev_files in (False, True):
                specs = render_schema(obj['schema'], examples=obj['examples'], reverse_defs=rev_defs)
                if rev_files:
                    specs = list(reversed(specs))
                layouts.append(specs)
                try:
                    api = specs_to_ir([tuple(x) for x in specs])
                    outs.append(repr(sorted((n.name, d.name, sorted((k, json.dumps(v.value, sort_keys=True)) for k, v in d.get_examples().items()))
                                            for n in api.namespaces.values() for d in n.data_types)))
                except Exception as e:
                    outs.append('%s: %s' % (type(e).__name__, str(e)[:120]))
        self.judged += 1
        self.count('example_layouts', len(outs))
        if self.judged == 1:
            self.sample({'slot': obj['slot'], 'layouts': 4})
        for i in range(1, len(outs)):
            if outs[i] != outs[0]:
                self.violation('example_order', 'computed examples depend on the order of definitions / files (slot type %s): %s ... vs %s ...'
                               % (obj['slot'], outs[0][:160], outs[i][:160]), {'vector': {'slot': obj['slot']}, 'specs': layouts[i], 'other_specs': layouts[0]})
                break

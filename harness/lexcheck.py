"""C03 judge: StoneLex line sequences, StoneTok token strings and token edits, replayed through the real
Lexer and the whole frontend (specs_to_ir, python -m stone.cli)."""
import json
import os
import re
import subprocess
import sys
import tempfile

from runner import Judge

LEX_ERR = {'Indent is not divisible by 4.': 'indent4',
           'Line continuation must increment indent by 1.': 'continuation',
           "Unmatched ')'.": 'unmatched'}


def render_lines(lines, spec_like=False):
    out = []
    for i, l in enumerate(lines, 1):
        pad = ' ' * l['ind']
        k = l['kind']
        if k == 'blank':
            out.append('')
        elif k == 'ws':
            out.append(pad if l['ind'] else '  ')
        elif k == 'comment':
            out.append(pad + '# c%d' % i)
        elif k == 'plain':
            out.append(pad + 'x%d y' % i)
        elif k == 'pc':
            out.append(pad + 'x%d y # c' % i)
        elif k == 'open':
            out.append(pad + 'x%d (' % i)
        elif k == 'close':
            out.append(pad + 'y )')
        elif k == 'oc':
            out.append(pad + 'x%d ( y )' % i)
        elif k == 'ooc':
            out.append(pad + 'x%d ( y ( z )' % i)
    return '\n'.join(out) + '\n'


def render_tokens(toks):
    out = []
    level = 0
    line = []
    for t in toks:
        if t == 'NL':
            out.append(' ' * (4 * level) + ' '.join(line))
            line = []
        elif t == 'IN':
            level += 1
        elif t == 'DE':
            level = max(0, level - 1)
        else:
            line.append(t)
    if line:
        out.append(' ' * (4 * level) + ' '.join(line))
    return '\n'.join(out)


def real_skeleton(text):
    from stone.frontend.lexer import Lexer
    lx = Lexer()
    lx.input(text)
    sk = []
    m = {'NEWLINE': 'NL', 'INDENT': 'IN', 'DEDENT': 'DE', 'LPAR': 'LP', 'RPAR': 'RP'}
    while True:
        t = lx.token()
        if t is None:
            break
        c = m.get(t.type, 'T')
        if c == 'T' and sk and sk[-1] == 'T':
            continue
        sk.append(c)
    return sk, [LEX_ERR.get(e[0], e[0]) for e in lx.errors]


class TextJudge(Judge):
    """Outcome class of the whole frontend on generated texts; lexer skeleton for StoneLex vectors."""

    def __init__(self, params):
        super().__init__(params)
        self.cli_samples = []

    _factory = None

    def _fast(self, specs):
        """specs_to_ir with the LALR tables reused across calls (14 ms -> 1 ms).  The factory is the
        one specs_to_ir itself reuses across files; it is dropped after any error because get_parser()
        does not clear recorded errors.  Anything but a clean Api / InvalidSpec is re-run through the
        unmodified specs_to_ir before it is reported."""
        from stone.frontend.parser import ParserFactory
        from stone.frontend.ir_generator import IRGenerator
        from stone.frontend.exception import InvalidSpec
        if TextJudge._factory is None:
            TextJudge._factory = ParserFactory(debug=False)
        pf = TextJudge._factory
        asts = []
        try:
            for path, text in specs:
                parser = pf.get_parser()
                parser.errors = []            # get_parser() leaves the errors of the previous text
                parser.lexer.errors = []
                ast = parser.parse(text, path)
                if parser.got_errors_parsing():
                    msg, lineno, path = parser.get_errors()[0]
                    raise InvalidSpec(msg, lineno, path)
                if len(ast):
                    asts.append(ast)
            return IRGenerator(asts, '0.1b1', debug=False, route_whitelist_filter=None).generate_IR()
        except InvalidSpec:
            raise
        except BaseException:
            TextJudge._factory = None         # unknown internal state: rebuild
            raise

    def frontend(self, specs, ctx, what, real=False):
        from stone.frontend.frontend import specs_to_ir
        from stone.frontend.exception import InvalidSpec
        from stone.ir import Api
        paths = {p for p, _ in specs}
        try:
            try:
                # `real`: the unmodified entry point itself (the shortcut below repeats its loop over the files, so what
                # that loop does with a text that holds no definition is only seen through the entry point)
                api = specs_to_ir(list(specs)) if real else self._fast(list(specs))
            except InvalidSpec:
                raise
            except Exception:
                api = specs_to_ir(list(specs))      # confirm with the unmodified entry point
            if not isinstance(api, Api):
                self.violation(None, 'specs_to_ir returned %r for %s' % (type(api).__name__, what), ctx)
            self.count('outcome_api')
            return 'api'
        except InvalidSpec as e:
            self.count('outcome_spec_error')
            if not e.msg or not str(e.msg).strip():
                self.violation(None, 'spec error with an empty message for %s' % what, ctx)
            if e.path is not None and e.path not in paths:
                self.violation(None, 'spec error names path %r which is not an input (%s)' % (e.path, what), ctx)
            if len(self.cli_samples) < 3 and self.n % 97 == 0:
                self.cli_samples.append(list(specs))
            return 'spec_error'
        except RecursionError as e:
            self.violation('exc_RecursionError', 'frontend raised RecursionError for %s' % what, ctx)
        except Exception as e:
            self.violation('exc_%s_%s' % (type(e).__name__, where(e)),
                           'frontend raised %s instead of a spec error: %s; input: %s'
                           % (type(e).__name__, str(e)[:160], what), ctx)
        return 'exc'

    def on_vec(self, tag, obj):
        if tag != 'VEC':
            return
        self.n += 1
        self.judged += 1
        if 'lines' in obj:
            lines = obj['lines']
            text = render_lines(lines)
            ctx = {'vector': obj, 'text': text}
            if self.judged % 2999 == 1:
                self.sample({'lines': lines, 'text': text, 'skeleton': obj['skel']})
            # (1) the lexer itself against the operational model
            try:
                sk, errs = real_skeleton(text)
                exp_sk = collapse_t(obj['skel'] if isinstance(obj['skel'], list) else [])
                exp_errs = [e['e'] for e in (obj['errs'] if isinstance(obj['errs'], list) else [])]
                if obj['crash']:
                    self.violation(None, 'model predicts a lexer crash but the lexer survived: %r' % text, ctx)
                elif sk != exp_sk:
                    self.violation(None, 'token skeleton differs from StoneLex!OpLex: %r -> %s, expected %s'
                                   % (text, sk, exp_sk), ctx)
                elif sorted(errs) != sorted(exp_errs):
                    self.violation(None, 'lexer errors differ from StoneLex!OpLex: %r -> %s, expected %s'
                                   % (text, errs, exp_errs), ctx)
                self.count('lexer_skeletons')
            except Exception as e:
                self.violation('exc_lexer_%s' % type(e).__name__,
                               'lexer raised %s: %s on %r' % (type(e).__name__, e, text), ctx)
            if self.params.get('lexonly'):
                return
            # (2) the whole frontend, bare and after a namespace header
            # texts without any definition (comments, blank lines) and every seventh text go through the entry point itself,
            # alone and next to an ordinary spec
            nodef = not any(l.strip() and not l.strip().startswith('#') for l in text.split('\n'))
            real = nodef or self.judged % 7 == 0
            self.frontend([('a.stone', text)], ctx, repr(text), real=real)
            if nodef:
                self.frontend([('a.stone', text), ('b.stone', 'namespace nsb\n\nunion V\n    v\n')], ctx, repr(text) + ' + b.stone', real=True)
                self.frontend([('b.stone', 'namespace nsb\n\nunion V\n    v\n'), ('a.stone', text)], ctx, 'b.stone + ' + repr(text), real=True)
            self.frontend([('a.stone', 'namespace nsa\n' + text)], ctx, repr('namespace nsa\n' + text), real=real)
        else:
            toks = obj['toks'] if isinstance(obj['toks'], list) else []
            body = render_tokens(toks)
            text = ('namespace nsa\n' + body + '\n') if obj['mode'] == 'strings' else body + '\n'
            ctx = {'vector': obj, 'text': text}
            if self.judged % 2999 == 1:
                self.sample({'tokens': toks, 'text': text})
            specs = [('a.stone', text)]
            if obj['mode'] == 'edits':
                # the seeds import nsb / use types of a second file: splice with a fixed companion spec
                specs.append(('b.stone', 'namespace nsb\n\nunion V\n    v\n'))
            self.frontend(specs, ctx, repr(text))

    def finish(self):
        # spot check: the command line answers a bad spec with path:line: error: message, exit 1
        for specs in self.cli_samples:
            tmp = tempfile.mkdtemp(prefix='verif-cli-')
            try:
                paths = []
                for p, t in specs:
                    fp = os.path.join(tmp, p)
                    with open(fp, 'w') as f:
                        f.write(t)
                    paths.append(fp)
                r = subprocess.run([sys.executable, '-m', 'stone.cli', 'python_types', os.path.join(tmp, 'out')] + paths +
                                   ['--', '-p', 'pk'], capture_output=True, text=True, cwd=tmp, timeout=120)
                self.count('cli_runs')
                ok = r.returncode == 1 and re.search(r'^.*:\d+: error: .+', r.stderr, re.M)
                if not ok:
                    self.violation(None, 'command line did not answer a bad spec with path:line: error: message '
                                   '(exit %s, stderr %r)' % (r.returncode, r.stderr[-300:]), {'specs': specs})
            finally:
                import shutil
                shutil.rmtree(tmp, ignore_errors=True)


def collapse_t(sk):
    out = []
    for c in sk:
        if c == 'T' and out and out[-1] == 'T':
            continue
        out.append(c)
    return out


def where(e):
    """innermost stone frame of the traceback: file:function (stable class for known findings)."""
    import traceback
    tb = traceback.extract_tb(e.__traceback__)
    for fr in reversed(tb):
        if '/stone/' in fr.filename and '_vendor' not in fr.filename:
            return '%s:%s' % (os.path.basename(fr.filename), fr.name)
    return 'unknown'

"""C11 (delivery): StoneStdin vectors replayed through stone.cli.main with the text on stdin and with files."""
import contextlib
import hashlib
import io
import json
import os
import shutil
import sys
import tempfile

from runner import Judge


def _seq(x):
    return x if isinstance(x, list) else []


def render_file(f, idx):
    """Concrete text of an abstract file; definitions get names unique over the whole input."""
    out = []
    pre = {'none': None, 'c': '# a comment', 'cword': '# namespace nsz is declared elsewhere', 'blank': ''}[f['pre']]
    if pre is not None:
        out.append(pre)
    out.append('namespace ns%d' % f['ns'])
    out.append('')
    for j, k in enumerate(_seq(f['body'])):
        n = '%d%d' % (idx, j)
        if k == 'plain':
            out += ['struct P%s' % n, '    f Int32', '']
        elif k == 'dword':
            out += ['struct D%s' % n, '    "About this namespace and no other namespace."', '    f Int32', '']
        elif k == 'iword':
            out += ['struct I%s' % n, '    namespace_id String', '    namespaces List(String)', '']
        elif k == 'cword':
            out += ['# the namespace continues']
        elif k == 'c':
            out += ['# note']
    return '\n'.join(out) + '\n'


def run_cli(argv, stdin_text=None):
    import stone.cli as cli
    old_argv, old_stdin = sys.argv, sys.stdin
    sys.argv = ['stone'] + argv
    err = io.StringIO()
    code = 0
    try:
        if stdin_text is not None:
            class _In:
                buffer = io.BytesIO(stdin_text.encode('utf-8'))
            sys.stdin = _In()
        with contextlib.redirect_stderr(err), contextlib.redirect_stdout(io.StringIO()):
            try:
                cli.main()
            except SystemExit as e:
                code = e.code if isinstance(e.code, int) else (0 if e.code is None else 1)
    finally:
        sys.argv, sys.stdin = old_argv, old_stdin
    return code, err.getvalue()


def tree_digest(d):
    h = {}
    for root, _, fs in os.walk(d):
        for f in fs:
            with open(os.path.join(root, f), 'rb') as fh:
                h[os.path.relpath(os.path.join(root, f), d)] = hashlib.sha1(fh.read()).hexdigest()
    return h


def deliver_both(texts, tmp, backend='python_types', args=('-p', 'pk')):
    """Compile the texts as files and as one stdin stream with a built-in backend; returns ((code, err, files), (...))."""
    paths = []
    src = os.path.join(tmp, 'src')
    os.makedirs(src, exist_ok=True)
    for i, t in enumerate(texts):
        p = os.path.join(src, 'f%d.stone' % i)
        with open(p, 'w') as f:
            f.write(t)
        paths.append(p)
    res = []
    for mode in ('files', 'stdin'):
        out = os.path.join(tmp, 'out_' + mode)
        shutil.rmtree(out, ignore_errors=True)
        if mode == 'files':
            code, err = run_cli([backend, out] + paths + ['--'] + list(args))
        else:
            code, err = run_cli([backend, out, '--'] + list(args), stdin_text=''.join(texts))
        res.append((code, err, tree_digest(out) if os.path.isdir(out) else {}))
    return res


class StdinJudge(Judge):
    def __init__(self, params):
        super().__init__(params)
        self.seen = set()

    def on_vec(self, tag, obj):
        if tag != 'VEC':
            return
        key = json.dumps(obj['files'], sort_keys=True)
        if key in self.seen:
            return
        self.seen.add(key)
        self.n += 1
        self.judged += 1
        files = _seq(obj['files'])
        texts = [render_file(f, i) for i, f in enumerate(files)]
        ctx = {'vector': obj, 'texts': texts}
        if self.judged % 997 == 1:
            self.sample({'files': files, 'stdin_text': ''.join(texts)[:400]})
        tmp = tempfile.mkdtemp(prefix='verif-stdin-')
        try:
            (c1, e1, d1), (c2, e2, d2) = deliver_both(texts, tmp)
        except Exception as e:
            self.violation('exc_' + type(e).__name__, 'stone.cli.main raised %s: %s' % (type(e).__name__, str(e)[:200]), ctx)
            return
        finally:
            shutil.rmtree(tmp, ignore_errors=True)
        if c1 != 0:
            self.violation(None, 'the files themselves are refused (harness rendering?): %s' % e1.strip()[-200:], ctx)
            return
        self.count('deliveries')
        if c2 != 0:
            self.violation('stdin_refused', 'specs that compile from files are refused on stdin: %s (%d files, the old splitting '
                           'would see %d parts, the documented one %d)' % (e2.strip().split('\n')[-1][:200], len(files),
                                                                          obj['old_nparts'], obj['nparts']), ctx)
        elif d1 != d2:
            diff = sorted(set(d1) ^ set(d2)) or sorted(k for k in d1 if d1[k] != d2.get(k))
            self.violation('stdin_differs', 'python_types output differs between file and stdin delivery: %s' % diff[:4], ctx)

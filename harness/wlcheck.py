"""C20 judge: StoneWhitelist vectors replayed through specs_to_ir(route_whitelist_filter=...) and python_types."""
import json

from runner import Judge
from stonegen import Generated


def render_spec(E):
    E = set(E)
    a = ['namespace nsa']
    if 'ns_doc' in E:
        a.append('    "Namespace doc mentioning :type:`S7`."')
    a += ['', 'import nsb', '']
    a.append('route r1(S1, Void, %s)' % ('U1' if 'route_err' in E else 'Void'))
    if 'doc_route_on_route' in E:
        a.append('    "See also :route:`r4`."')
    if 'io_wrapped' in E:
        a += ['', 'route r3(Void, Map(String, S8), Void)', '', 'route r4(Void, List(Map(String, S7)), Void)', '']
    else:
        a += ['', 'route r3(S8, Void, Void)', '', 'route r4(S7, Void, Void)', '']
    a += ['struct S1',
          '    f %s' % ('S2' if 'f_direct' in E else 'Int32'),
          '    g %s' % ('List(S3)' if 'f_list' in E else 'Int32'),
          '    h %s' % ('Map(String, S4?)' if 'f_map_nullable' in E else 'Int32'), '']
    a += ['struct S2%s' % (' extends S5' if 'parent' in E else ''), '    a Int32', '']
    a.append('struct S5')
    if 'subtypes' in E:
        a.append('    union')
        if 'parent' in E:
            a.append('        s2 S2')
        a.append('        s6 S6')
    a += ['    b Int32', '']
    a += ['struct S6%s' % (' extends S5' if 'subtypes' in E else ''),
          '    d %s' % ('U1 = t1' if 'tag_default' in E else 'Int32'), '']
    a += ['struct S3', '    k %s' % ('A1' if 'f_alias' in E else 'Int32')]
    if 'doc_field' in E:
        a.append('        "Like :field:`S7.x`."')
    a += ['', 'alias A1 = S4']
    if 'doc_on_alias' in E:
        a.append('    "An alias; see also :type:`S8`."')
    a += ['', 'struct S4']
    if 'doc_type' in E:
        a.append('    "Related to :type:`S6`."')
    a += ['    c Int32', '', 'struct S7', '    x Int32', '']
    a += ['struct S8', '    y %s' % ('nsb.T1' if 'cross_ns' in E else 'Int32'), '']
    a.append('union U1')
    if 'doc_route_on_type' in E:
        a.append('    "Returned by :route:`r3`."')
    a += ['    t1', '    t2 Int32', '']
    b = ['namespace nsb', '', 'struct T1', '    z Int32'] + (['        "Like :field:`S7.x`."'] if 'doc_namesake' in E else []) + \
        ['', 'struct S7', '    x Int32', '', ('route r3(Void, List(T1)?, Void)' if 'io_wrapped' in E else 'route r3(T1, Void, Void)'), '']
    return [('nsa.stone', '\n'.join(a) + '\n'), ('nsb.stone', '\n'.join(b) + '\n')]


def whitelist_arg(routes, types):
    rw, dw = {}, {}
    for r in routes:
        if r == '*nsa':
            rw['nsa'] = ['*']
        else:
            # the route q1 of the model is WRITTEN nsb.r3: same name and version as nsa.r3 (names are per namespace)
            rw.setdefault('nsb' if r == 'q1' else 'nsa', []).append('r3' if r == 'q1' else r)
    for t in types:
        dw.setdefault('nsb' if t == 'T1' else 'nsa', []).append(t)
    return {'route_whitelist': rw, 'datatype_whitelist': dw}


def dangling(api):
    """References from the retained API to something that is not retained."""
    from stone.ir import data_types as T
    kept = {(ns.name, d.name) for ns in api.namespaces.values() for d in ns.data_types}
    out = []

    def check(dt, where):
        while isinstance(dt, (T.Nullable, T.List)):
            dt = dt.data_type
        if isinstance(dt, T.Map):
            check(dt.value_data_type, where)
            return
        if isinstance(dt, T.Alias):
            check(dt.data_type, where + ' via alias ' + dt.name)
            return
        if isinstance(dt, T.UserDefined) and (dt.namespace.name, dt.name) not in kept:
            out.append('%s refers to removed type %s.%s' % (where, dt.namespace.name, dt.name))
    for ns in api.namespaces.values():
        for d in ns.data_types:
            for f in d.fields:
                check(f.data_type, '%s.%s.%s' % (ns.name, d.name, f.name))
            if d.parent_type is not None:
                check(d.parent_type, '%s.%s (parent)' % (ns.name, d.name))
            if isinstance(d, T.Struct) and d.has_enumerated_subtypes():
                for f in d.get_enumerated_subtypes():
                    check(f.data_type, '%s.%s (subtype list)' % (ns.name, d.name))
        for a in ns.aliases:
            check(a.data_type, 'alias %s.%s' % (ns.name, a.name))
        for r in ns.routes:
            for dt in (r.arg_data_type, r.result_data_type, r.error_data_type):
                check(dt, 'route %s.%s' % (ns.name, r.name))
    return out


class WhitelistJudge(Judge):
    def on_vec(self, tag, obj):
        if tag != 'VEC':
            return
        from stone.frontend.frontend import specs_to_ir
        self.n += 1
        self.judged += 1
        seq = lambda x: x if isinstance(x, list) else []
        E, routes, types = seq(obj['edges']), seq(obj['routes']), seq(obj['types'])
        specs = render_spec(E)
        wl = whitelist_arg(routes, types)
        ctx = {'vector': obj, 'specs': specs, 'whitelist': wl}
        try:
            api = specs_to_ir(specs, route_whitelist_filter=wl)
        except Exception as e:
            self.violation('exc_' + type(e).__name__, 'whitelisting raised %s: %s' % (type(e).__name__, e), ctx)
            return
        got_types = sorted(('T2' if (ns.name, d.name) == ('nsb', 'S7') else d.name) for ns in api.namespaces.values() for d in ns.data_types)
        got_routes = sorted(('q1' if (ns.name, r.name) == ('nsb', 'r3') else r.name) for ns in api.namespaces.values() for r in ns.routes)
        exp_types, exp_routes = sorted(seq(obj['ret_types'])), sorted(seq(obj['ret_routes']))
        if self.judged % 1499 == 1:
            self.sample({'edges': E, 'whitelist': wl, 'retained_types': got_types, 'retained_routes': got_routes})
        missing = sorted(set(exp_types) - set(got_types))
        extra = sorted(set(got_types) - set(exp_types))
        if missing:
            self.violation('missing_types', 'dependency closure incomplete: %s not retained (edges %s, whitelist %s)'
                           % (missing, sorted(E), wl), ctx)
        if extra:
            self.violation('extra_types', 'not minimal: %s retained outside the closure (edges %s, whitelist %s)'
                           % (extra, sorted(E), wl), ctx)
        mr = sorted(set(exp_routes) - set(got_routes))
        xr = sorted(set(got_routes) - set(exp_routes))
        if mr:
            cls = 'missing_route_from_route_doc' if set(mr) <= {'r4'} and 'doc_route_on_route' in E else 'missing_routes'
            self.violation(cls, 'route(s) %s mentioned in a doc reference / whitelisted but not retained (edges %s, whitelist %s)'
                           % (mr, sorted(E), wl), ctx)
        if xr:
            self.violation('extra_routes', 'route(s) %s retained without being whitelisted or referenced' % xr, ctx)
        d = dangling(api)
        if d:
            cls = 'dangling_alias' if all(x.startswith('alias ') for x in d) else 'dangling'
            self.violation(cls, 'filtered API has dangling references: %s' % '; '.join(d[:3]), ctx)
        # code generated from the filtered API loads like code from the full API
        if self.judged % 7 == 0 or d:
            self.count('imports')
            try:
                g = Generated(specs, api=api)
                try:
                    for ns in api.namespaces.values():
                        g.module(ns.name)
                finally:
                    g.close()
            except Exception as e:
                cls = 'import_dangling_alias' if (d and all(x.startswith('alias ') for x in d)) else 'import_fails'
                self.violation(cls, 'python_types output of the filtered API fails to load: %s: %s'
                               % (type(e).__name__, str(e)[:200]), ctx)

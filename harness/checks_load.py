"""C09 C14 C15: StoneLoadMC."""
import json

from runner import Report, run_shards, merge, seed

INVS = ['LoadIffAcyclic', 'NoLoadError', 'CtorCoversAllFields', 'SignatureIsCtorOrder', 'CallsWellFormed']


def _run(prop, tier, replay, text):
    from loadcheck import LoadJudge
    if replay:
        with open(replay) as f:
            payload = json.load(f)
        print('replay: rerun ./check %s (vectors of StoneLoadMC depend on the model vector of the shard); stored context:' % prop)
        print(json.dumps(payload.get('vector', {}).get('vector', {}))[:600])
        rep = Report(prop, 'quick')
        res = run_shards('StoneLoadMC',
                         lambda s: dict(spec='Spec', constants={'Shard': s, 'NShards': 16, 'EmitVectors': True},
                                        invariants=INVS, constraints=['Emit']),
                         list(range(16)), 'loadcheck.LoadJudge', {'prop': prop}, tlc_kwargs={'timeout': 6000})
        agg = merge(res)
        rep.add_tlc('StoneLoadMC', agg, {})
        rep.add_judged(agg)
        return rep.finish()
    rep = Report(prop, tier)
    res = run_shards('StoneLoadMC',
                     lambda s: dict(spec='Spec', constants={'Shard': s, 'NShards': 16, 'EmitVectors': True},
                                    invariants=INVS, constraints=['Emit']),
                     list(range(16)), 'loadcheck.LoadJudge', {'prop': prop}, tlc_kwargs={'timeout': 6000})
    agg = merge(res)
    rep.add_tlc('StoneLoadMC', agg, {'models': 129})
    rep.add_judged(agg)
    rep.exhaustive = True
    rep.coverage_extra['rule'] = text
    rep.assumptions = ['TLC 1.8; harness/loadcheck.py render_model; identifiers restricted to names on which the documented '
                       'naming conversions are the identity (PascalCase types without acronyms, snake_case fields and routes)']
    return rep.finish()


def check_c09(tier, replay=None):
    return _run('C09', tier, replay,
                '129 API models (inheritance of 2 levels or with a field-less marker struct in the middle; ancestors in the same or an '
                'imported namespace; struct/union/Void route arguments; deprecation none/plain/by; rpc/upload/download; a 3-namespace '
                'import ring) x every namespace imported first in a fresh interpreter; per model the imported modules are compared with '
                'StoneLoadMC!PySurface: classes and bases, constructor parameters in order, every field read/write/delete, union helpers '
                'and ready instances, validators, alias bindings, route objects with name/version/deprecation/validators/attrs, ROUTES')


def check_c14(tier, replay=None):
    return _run('C14', tier, replay,
                'for every route of the 129 models every call shape (k leading positionals for every k; remaining required parameters '
                'by keyword; optional ones none / each singly / all) is issued on a subclass of the generated client whose request() '
                'records its arguments: method name, signature and defaults, exactly one request, route object identity, namespace, '
                'argument == struct built from the parameters (distinct value per field), upload body, DeprecationWarning, return value')


def check_c15(tier, replay=None):
    return _run('C15', tier, replay,
                'for each of the 129 models the .pyi of every namespace is parsed with ast and compared with StoneLoadMC!PySurface and '
                'with the imported runtime module: classes, bases, constructor parameter names, field attributes, is_/get_/constructor '
                'helpers, void-tag attributes, validators, alias bindings, route objects; every annotation compared with the Pep484 '
                'mapping computed by the specification; every name used in an annotation must be bound in the stub')


def check_c16(tier, replay=None):
    rep = Report('C16', tier)
    res = run_shards('StoneLoadMC',
                     lambda s: dict(spec='Spec', constants={'Shard': s, 'NShards': 16, 'EmitVectors': True},
                                    invariants=INVS, constraints=['Emit']),
                     list(range(16)), 'jscheck.JsJudge', {}, tlc_kwargs={'timeout': 6000})
    agg = merge(res)
    rep.add_tlc('StoneLoadMC', agg, {'models': 129})
    rep.add_judged(agg)
    rep.exhaustive = True
    rep.coverage_extra['rule'] = ('for each of 128 API models (no import ring): js_client with 2 option sets parsed by node --check and evaluated '
                                  'under node with a recording request(): one function per route version, URL, argument or null, attribute '
                                  'values; js_types JSDoc typedefs and tsd_types declarations (single file, file per namespace, '
                                  '--export-namespaces) scanned: every struct, union (and alias for tsd) exactly once, every field and tag at '
                                  'its mapped type, optionality, no undeclared name; tsd_client: one method per route version with mapped types')
    rep.assumptions = ['TLC 1.8; node v20 for JavaScript parsing/evaluation; regex scanners for JSDoc and .d.ts (no tsc in this sandbox); '
                       'naming conversions reimplemented in harness/jscheck.py']
    return rep.finish()


def check_c17(tier, replay=None):
    rep = Report('C17', tier)
    res = run_shards('StoneLoadMC',
                     lambda s: dict(spec='Spec', constants={'Shard': s, 'NShards': 16, 'EmitVectors': True},
                                    invariants=INVS, constraints=['Emit']),
                     list(range(16)), 'swiftcheck.SwiftJudge', {}, tlc_kwargs={'timeout': 6000})
    agg = merge(res)
    rep.add_tlc('StoneLoadMC', agg, {'models': 129})
    rep.add_judged(agg)
    rep.exhaustive = True
    rep.coverage_extra['rule'] = ('for each of 128 API models the six rows swift_types, swift_types --objc, swift_client, swift_client --objc, '
                                  'obj_c_types, obj_c_client (with the route-style and client-argument options they require) must complete; every '
                                  '.swift/.h/.m file is scanned by a small lexer (balanced brackets outside strings and comments, terminated '
                                  'strings and comments); declarations of namespaces, structs, unions, fields, tags, serializers and route '
                                  'functions are counted under the naming scheme (exactly once) and user-type references resolved')
    rep.assumptions = ['TLC 1.8; no swiftc / Objective-C compiler in this sandbox: lexical form and declaration coverage only; '
                       'naming conversions reimplemented in harness/jscheck.py']
    return rep.finish()

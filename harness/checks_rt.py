"""C08: StoneRuntimeMC."""
import json

from runner import Report, run_shards, merge, seed

INVS = ['SlotHoldsDeclaredType', 'NormStable', 'WireValidAccepted']


def check_c08(tier, replay=None):
    if replay:
        from rtcheck import RuntimeJudge
        with open(replay) as f:
            payload = json.load(f)
        if 'vector' not in payload:
            print('replay file has no vector (model-level violation): rerun the check')
            return 2
        ctx = payload['vector']
        rep = Report('C08', 'quick')
        j = RuntimeJudge({})
        j.on_vec('VEC', {'phase': 'schema', 'schema': ctx['schema'], 'types': ctx['types']})
        j.on_vec('VEC', ctx['vector'])
        j.finish()
        rep.states = rep.transitions = 1
        rep.add_judged({'judged': j.judged, 'violations': j.violations, 'samples': j.samples,
                        'skipped': j.skipped, 'kinds': j.kinds})
        return rep.finish()
    rep = Report('C08', tier)
    res = run_shards('StoneRuntimeMC',
                     lambda s: dict(spec='Spec', constants={'Shard': s, 'NShards': 16, 'EmitVectors': True},
                                    invariants=INVS, constraints=['Emit']),
                     list(range(16)), 'rtcheck.RuntimeJudge', {}, tlc_kwargs={'timeout': 3000})
    agg = merge(res)
    rep.add_tlc('StoneRuntimeMC', agg, {'types': 'all', 'pool_depth': 1})
    rep.add_judged(agg)
    rep.exhaustive = True
    rep.coverage_extra['rule'] = ('every declared type of the StoneRuntimeMC universe (each integer/float primitive with unset, '
                                  'extreme, extreme+-1 and small bounds; strings with length and pattern; Bytes/Boolean/Timestamp; '
                                  'lists, maps, nullables of them; structs, subclasses, enumerated-subtype roots, unions and child '
                                  'unions; aliases from another namespace) x every argument at bound-1/bound/bound+1 plus every wrong '
                                  'Python kind x {setattr on unset and on set slot, getattr, delattr, union member constructor, '
                                  'json_compat_obj_decode of a primitive}; verdicts from the TLA+ Accepts/Norm operators')
    rep.assumptions = ['TLC 1.8; harness render; anchor-rank abstraction of numbers']
    return rep.finish()

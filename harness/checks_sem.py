"""C01 C02 C11: StoneSemMC scenarios A-E, R."""
import json
import random

from runner import Report, run_shards, merge, seed

INVS = ['OrderFree', 'CycleAgreement', 'DenoteClosed']
SCENARIOS = ['A', 'B', 'C', 'D', 'E', 'R', 'P']


def _cfg(scen, shard, nshards, mode, wfonly=False):
    return dict(spec='Spec', constants={'Shard': shard, 'NShards': nshards, 'EmitVectors': True, 'WFOnly': wfonly,
                                        'Scenario': '"%s"' % scen, 'OrderMode': '"%s"' % mode},
                invariants=INVS, constraints=['Emit'])


def _replay(prop, path):
    from semcheck import SemJudge
    with open(path) as f:
        payload = json.load(f)
    if 'vector' not in payload:
        print('replay file has no vector (model-level violation): rerun the check')
        return 2
    rep = Report(prop, 'quick')
    ctx = payload['vector']
    if isinstance(ctx.get('vector'), dict) and ctx['vector'].get('mode') in ('exlit', 'attr', 'docref', 'annot', 'anndef', 'badtype', 'subtype'):
        from litcheck import LitJudge
        j = LitJudge({'prop': prop})
        j.on_vec('VEC', ctx['vector'])
        rep.states = rep.transitions = 1
        rep.add_judged({'judged': j.judged, 'violations': j.violations, 'samples': j.samples, 'skipped': j.skipped, 'kinds': j.kinds})
        return rep.finish()
    j = SemJudge({'prop': prop})
    if prop == 'C11' and 'other_specs' in ctx:
        # re-run both layouts
        from semcheck import canon, project_api, backend_digest
        from stone.frontend.frontend import specs_to_ir
        res = []
        for specs in (ctx['other_specs'], ctx['specs']):
            try:
                api = specs_to_ir([tuple(s) for s in specs])
                res.append(('api', canon(project_api(api)), backend_digest(api)))
            except Exception as e:
                res.append((type(e).__name__,))
        if res[0] != res[1]:
            j.violation(None, 'same definitions, different layout: results differ (%s vs %s)' % (res[0][0], res[1][0]), ctx)
        j.judged = 1
    else:
        j.on_vec('VEC', ctx['vector'])
    rep.states = rep.transitions = 1
    rep.add_judged({'judged': j.judged, 'violations': j.violations, 'samples': j.samples,
                    'skipped': j.skipped, 'kinds': j.kinds})
    return rep.finish()


LIT_INVS = ['Total', 'DeclaredDefaultsFit', 'NullIffNullable', 'ForeignNeedsImport']
LIT_SHARDS = {'exlit': 4, 'attr': 2, 'docref': 16, 'annot': 8, 'anndef': 1, 'badtype': 1}


def lit_stage(rep, prop, modes, quick=False):
    """StoneLitMC: example expressions x field types, route attribute values x schema declarations, doc references x sites, ...
    All modes run in one pool.  quick: doc references only in the docstrings of structs and routes (the shards of those sites)."""
    jobs = []
    for mode in modes:
        nsh = LIT_SHARDS[mode]
        shards = list(range(nsh))
        if quick and mode == 'docref':
            shards = [0, 3, 4, 7, 8, 11, 12, 15]        # Hash = site + 4 * tag: sites struct (0) and route (3), every tag
        jobs += [(mode, sh, nsh) for sh in shards]
    res = run_shards('StoneLitMC',
                     lambda j: dict(spec='Spec', constants={'Mode': '"%s"' % j[0], 'Shard': j[1], 'NShards': j[2], 'EmitVectors': True},
                                    invariants=LIT_INVS, constraints=['InShard', 'Emit']),
                     jobs, 'litcheck.LitJudge', {'prop': prop}, tlc_kwargs={'timeout': 3000})
    for mode in modes:
        agg = merge([r for r, j in zip(res, jobs) if j[0] == mode])
        rep.add_tlc('StoneLitMC/' + mode, agg, {'Mode': mode, 'shards': [j[1] for j in jobs if j[0] == mode], 'of': LIT_SHARDS[mode]})
        rep.add_judged(agg)


def _run(prop, tier, replay, text, quick_frac):
    if replay:
        return _replay(prop, replay)
    rep = Report(prop, tier)
    rng = random.Random(seed())
    wf = (prop == 'C02')
    jobs = []
    for scen in SCENARIOS:
        if tier == 'thorough':
            nsh, shards, mode = 16, list(range(16)), 'all' if prop == 'C11' else 'two'
        elif prop in ('C01', 'C02'):
            # quick: EVERY instance of every scenario (C02: every well-formed one) in one layout
            nsh, shards, mode = 3, list(range(3)), 'one'
        else:
            # C11 quick: a seeded subset of the instance shards of every scenario, 18 layouts each
            nsh = 16 * quick_frac
            shards = sorted(rng.sample(range(nsh), 2))
            mode = 'two'
        jobs += [(scen, s, nsh, mode) for s in shards]
    if prop == 'C11' and tier != 'thorough':
        # between namespaces the order of the FILES is what matters: every instance of the namespace scenario in
        # ascending and descending definition order x both file orders
        jobs += [('C', s, 8, 'files') for s in range(8)]
    res = run_shards('StoneSemMC', lambda j: _cfg(j[0], j[1], j[2], j[3], wf), jobs, 'semcheck.SemJudge',
                     {'prop': prop}, tlc_kwargs={'timeout': 6000})
    for scen in SCENARIOS:
        sub = [r for r, j in zip(res, jobs) if j[0] == scen]
        agg = merge(sub)
        mine = [j for j in jobs if j[0] == scen]
        rep.add_tlc('StoneSemMC/' + scen, agg, {'Scenario': scen, 'OrderMode': sorted({j[3] for j in mine}),
                                                'shards': [[j[1], j[2], j[3]] for j in mine]})
        rep.add_judged(agg)
    if prop == 'C02':
        # route attributes: the written value, else the schema default, else null, for own and inherited attributes of the schema
        lit_stage(rep, 'C02', ('attr',))
    if prop == 'C01':
        lit_stage(rep, 'C01', ('exlit', 'attr', 'docref', 'annot', 'anndef', 'badtype'), quick=(tier == 'quick'))
        # default literals (StoneDefaultsMC!CompileLit): a field default compiles iff the documented rule accepts it
        res = run_shards('StoneDefaultsMC',
                         lambda s: dict(spec='Spec', constants={'Mode': '"defaults"', 'Shard': 0, 'NShards': 1, 'EmitVectors': True},
                                        invariants=['DefaultsValid'], constraints=['Emit']),
                         [0], 'defcheck.DefaultsJudge', {'prop': 'C01'}, tlc_kwargs={'timeout': 3000})
        agg = merge(res)
        rep.add_tlc('StoneDefaultsMC/defaults', agg, {'Mode': 'defaults'})
        rep.add_judged(agg)
    if prop == 'C11':
        # layout: comments, blank lines, trailing whitespace/comments, broken parenthesised lists.  StoneLex proves
        # (TLC, LayoutInvariance) that the line machine OpLex ignores them; here the real Lexer is bound to OpLex.
        maxlines = 3 if tier == 'quick' else 4
        res = run_shards('StoneLex',
                         lambda s: dict(spec='Spec', constants={'Shard': s, 'NShards': 16, 'EmitVectors': True,
                                                                'MaxLines': maxlines},
                                        invariants=['NoCrash', 'LayoutInvariance', 'Balanced'],
                                        constraints=['Emit', 'InShard']),
                         list(range(16)), 'lexcheck.TextJudge', {'lexonly': True}, tlc_kwargs={'timeout': 6000})
        agg = merge(res)
        rep.add_tlc('StoneLex', agg, {'MaxLines': maxlines, 'alphabet': 33})
        rep.add_judged(agg)
        # file order for the value-against-type cases (cross-namespace example references, imported annotations, doc
        # references into imported namespaces, route attribute schemas): every StoneLitMC case in both file orders
        lit_stage(rep, 'C11', ('exlit', 'attr', 'annot', 'anndef', 'badtype') if tier == 'quick' else ('exlit', 'attr', 'annot', 'anndef', 'badtype', 'docref'))
        # computed examples (references between examples of different types, subtype trees, unions) in both definition
        # orders and both file orders
        res = run_shards('StoneDefaultsMC',
                         lambda s: dict(spec='Spec', constants={'Mode': '"examples"', 'Shard': 0, 'NShards': 1, 'EmitVectors': True},
                                        invariants=['ExamplesValid'], constraints=['Emit']),
                         [0], 'defcheck.ExampleOrderJudge', {}, tlc_kwargs={'timeout': 3000})
        agg = merge(res)
        rep.add_tlc('StoneDefaultsMC/examples', agg, {'layouts': 'definition order x file order'})
        rep.add_judged(agg)
        # delivery: the concatenated files on standard input must mean what the files mean (StoneStdin, SplitRestores)
        consts = {'MaxFiles': 2, 'MaxBody': 1} if tier == 'quick' else {'MaxFiles': 2, 'MaxBody': 2}
        res = run_shards('StoneStdin',
                         lambda s: dict(spec='Spec', constants=dict(consts, Shard=s, NShards=8, EmitVectors=True),
                                        invariants=['SplitRestores', 'OneHeaderPerPart', 'NothingLost'],
                                        constraints=['Emit', 'InShard']),
                         list(range(8)), 'stdincheck.StdinJudge', {}, tlc_kwargs={'timeout': 6000})
        agg = merge(res)
        rep.add_tlc('StoneStdin', agg, consts)
        rep.add_judged(agg)
    rep.exhaustive = (tier == 'thorough' or prop in ('C01', 'C02'))
    rep.coverage_extra['rule'] = text
    rep.assumptions = ['TLC 1.8; harness/semcheck.py render_model / project_api; the rule catalogue of DESIGN Appendix A as '
                       'transcribed in specs/StoneSem.tla']
    return rep.finish()


def check_c01(tier, replay=None):
    return _run('C01', tier, replay,
                'scenario universes A (struct inheritance, field clashes), B (aliases, nullability), C (namespaces, imports), '
                'D (unions open/closed, tags), E (enumerated subtypes), R (routes, versions, deprecation): every instance = a '
                'combination of legal and rule-violating choices at every site; each authored in 3 orders x 3 file splits x 2 file '
                'orders (thorough: all instances); verdict of specs_to_ir compared with StoneSem!WellFormed, both directions; plus StoneLitMC: 19 field types x 30 example '
                'expressions (ExFits), 15 route-attribute declarations x 14 values incl. omitted (AttrFits), 6 doc-reference tags x 776 '
                'payload shapes x 4 sites (RefFits): compile succeeds iff the documented rule accepts, refusals are spec errors', 2)


def check_c02(tier, replay=None):
    return _run('C02', tier, replay,
                'every accepted model of the StoneSemMC scenarios: the projected Api (namespaces, types with parents, fields with '
                'types/nullability/defaults, all_fields order, subtype tables, union tags incl. the implicit other, aliases, routes '
                'with versions and deprecation) compared with StoneSem!Denote; plus alphabetical order, linearisations and closure '
                'checked on the real object graph', 2)


def check_c11(tier, replay=None):
    return _run('C11', tier, replay,
                'every instance of the StoneSemMC scenarios authored in several orders (quick: ascending, descending, rotated; '
                'thorough: all permutations of up to four definitions, all rotations in both directions beyond) x file splits x file orders: verdict, projected Api and the bytes of python_types, '
                'python_type_stubs and js_types output must coincide for all layouts of the same definitions; plus every sequence of '
                '<= 3 (thorough 4) physical lines over the 33-letter StoneLex alphabet (comments, blank and whitespace-only lines, '
                'trailing comments, nested and broken parentheses): real Lexer skeleton = StoneLex!OpLex, whose LayoutInvariance TLC checks; plus every sequence of <= 2 files of <= 1 (thorough 2) body lines '
                'with preamble/comment/doc/identifier lines containing the word namespace delivered as files and on standard input '
                '(StoneStdin!SplitRestores): same verdict and the same python_types bytes', 2)

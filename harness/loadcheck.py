"""C09 C14 C15 judge: StoneLoadMC models -> python_types / python_type_stubs / python_client output."""
import ast
import importlib
import inspect
import json
import os
import shutil
import subprocess
import sys
import tempfile
import warnings

from anchors import INT_ANCHORS, FLOAT_ANCHORS
from runner import Judge
from stonegen import render_schema, render_type, render_literal
from wire import Binder, norm_abs

STONE_CFG = ('namespace stone_cfg\n\nstruct Route\n    host String = "api"\n    scope String?\n    auth String\n'
             '    style String = "rpc"\n')


def attr_val(a):
    return None if a['k'] == 'null' else a['s']


def py_route_name(n, ver):
    return n if ver == 1 else '%s_v%d' % (n, ver)


def render_model(schema, routes):
    files = dict(render_schema(schema))
    nss = sorted({d['ns'] for d in schema.values()} | {r['ns'] for r in routes})
    out = []
    for ns in nss:
        text = files.get(ns + '.stone', 'namespace %s\n\n' % ns)
        lines = text.split('\n')
        refs = set()
        body = []
        for r in routes:
            if r['ns'] != ns:
                continue
            from stonegen import referenced_namespaces
            referenced_namespaces([r['arg'], r['res'], r['err']], schema, refs)
            name = r['n'] + (':%d' % r['ver'] if r['ver'] != 1 else '')
            line = 'route %s(%s, %s, %s)' % (name, render_type(r['arg'], ns, schema), render_type(r['res'], ns, schema),
                                             render_type(r['err'], ns, schema))
            if r['dep'] == 'plain':
                line += ' deprecated'
            elif r['dep'] == 'by':
                line += ' deprecated by %s' % (r['by'][0] + (':%d' % r['by'][1] if r['by'][1] != 1 else ''))
            body.append(line)
            body.append('    "Route %s."' % r['n'])
            body.append('    attrs')
            body.append('        style = "%s"' % r['style'])
            if r.get('host', 'api') != 'api':
                body.append('        host = "%s"' % r['host'])
            if r.get('scope'):
                body.append('        scope = "%s"' % r['scope'].replace('\\', '\\\\').replace('\n', '\\n'))
            body.append('        auth = "%s"' % r.get('auth', 'user'))
            body.append('')
        have = {l.split()[1] for l in lines if l.startswith('import ')}
        extra = ['import %s' % x for x in sorted(refs - {ns} - have)]
        lines = lines[:1] + [''] + extra + lines[1:]
        out.append((ns + '.stone', '\n'.join(lines) + '\n' + '\n'.join(body) + '\n'))
    out.append(('stone_cfg.stone', STONE_CFG))
    return out


def pymod(ns):
    """Python module of a namespace (mirrors StoneLoadMC!PyModule; `keyword` is the independent oracle)."""
    import keyword
    return ns + '_' if keyword.iskeyword(ns) else ns


def pep(p):
    k = p['k']
    if k in ('int', 'float', 'bytes', 'bool', 'Text', 'None'):
        return k
    if k == 'datetime':
        return 'datetime.datetime'
    if k == 'List':
        return 'List[%s]' % pep(p['e'])
    if k == 'Dict':
        return 'Dict[Text, %s]' % pep(p['v'])
    if k == 'Optional':
        return 'Optional[%s]' % pep(p['e'])
    if k == 'cls':
        return (pymod(p['ns']) + '.' if p['ns'] else '') + p['n']
    raise ValueError(p)


class Model:
    """One API model: generated packages and helpers."""

    def __init__(self, vec):
        from stone.frontend.frontend import specs_to_ir
        from stone.compiler import Compiler
        self.cfg = vec['cfg']
        self.c = vec['c']
        self.schema = vec['schema']
        self.routes = vec['routes']
        self.surfaces = vec['surfaces']
        self.specs = render_model(self.schema, self.routes)
        self.tmp = tempfile.mkdtemp(prefix='verif-load-')
        self.pkg = 'lpk%d_%d' % (os.getpid(), self.cfg)
        self.error = None
        try:
            api = specs_to_ir(list(self.specs))
            for r_ns in api.namespaces.values():
                pass
            Compiler(api, importlib.import_module('stone.backends.python_types'), ['-p', self.pkg],
                     os.path.join(self.tmp, self.pkg)).build()
            api2 = specs_to_ir(list(self.specs))
            Compiler(api2, importlib.import_module('stone.backends.python_type_stubs'), ['-p', self.pkg],
                     os.path.join(self.tmp, 'stubs')).build()
            api3 = specs_to_ir(list(self.specs))
            Compiler(api3, importlib.import_module('stone.backends.python_client'),
                     ['-m', 'client_' + self.pkg, '-c', 'Client', '-t', self.pkg], self.tmp).build()
        except Exception as e:
            self.error = e

    def close(self):
        for k in [k for k in sys.modules if k == self.pkg or k.startswith(self.pkg + '.') or k == 'client_' + self.pkg]:
            del sys.modules[k]
        if self.tmp in sys.path:
            sys.path.remove(self.tmp)
        shutil.rmtree(self.tmp, ignore_errors=True)

    def load(self):
        if self.tmp not in sys.path:
            sys.path.insert(0, self.tmp)
            importlib.invalidate_caches()
        return {ns: importlib.import_module('%s.%s' % (self.pkg, self.surfaces[ns]['pymod'])) for ns in self.surfaces}


class LoadJudge(Judge):
    """params: {'prop': 'C09'|'C14'|'C15'}"""

    def __init__(self, params):
        super().__init__(params)
        self.prop = params['prop']
        self.models = {}

    def finish(self):
        for m in self.models.values():
            m.close()
        self.models = {}

    def on_vec(self, tag, obj):
        if tag != 'VEC':
            return
        obj = norm_abs(obj)
        self.n += 1
        if obj['phase'] == 'model':
            m = Model(obj)
            self.models[obj['cfg']] = m
            ctx = {'vector': {'cfg': obj['cfg'], 'c': obj['c']}, 'specs': m.specs}
            if m.error is not None:
                from stone.frontend.exception import InvalidSpec
                if isinstance(m.error, InvalidSpec) and obj['c']['ring']:
                    self.count('ring_refused_by_frontend')
                    return
                self.violation('gen_fails_%s' % type(m.error).__name__, 'generation failed for model %s: %s: %s'
                               % (obj['c'], type(m.error).__name__, str(m.error)[:300]), ctx)
                return
            if obj['c']['ring']:
                return
            if self.prop == 'C09':
                self.judge_surface(m, ctx)
            elif self.prop == 'C15':
                self.judge_stubs(m, ctx)
            return
        m = self.models.get(obj['cfg'])
        if m is None or m.error is not None:
            return
        ctx = {'vector': obj, 'c': m.c, 'specs': m.specs}
        if obj['phase'] == 'loaded' and self.prop == 'C09':
            self.judge_first_import(m, obj, ctx)
        elif obj['phase'] == 'called' and self.prop == 'C14':
            self.judge_call(m, obj, ctx)

    # ------------------------------------------------------------------ C09
    def judge_first_import(self, m, obj, ctx):
        self.judged += 1
        others = [ns for ns in m.surfaces if ns != obj['first']]
        code = ('import sys, importlib; sys.path.insert(0, %r)\n'
                'importlib.import_module(%r)\n' % (m.tmp, '%s.%s' % (m.pkg, m.surfaces[obj['first']]['pymod'])) +
                ''.join('importlib.import_module(%r)\n' % ('%s.%s' % (m.pkg, m.surfaces[ns]['pymod'])) for ns in others))
        r = subprocess.run([sys.executable, '-c', code], capture_output=True, text=True, timeout=120)
        ok = r.returncode == 0
        if self.judged % 97 == 1:
            self.sample({'model': m.c, 'first_import': obj['first'], 'expected_ok': obj['ok'], 'loaded': ok})
        if obj['ok'] and not ok:
            self.violation(None, 'generated package fails to load when %s is imported first: %s'
                           % (obj['first'], r.stderr.strip().split('\n')[-1][:200]), ctx)
        elif not obj['ok'] and ok:
            self.skip('predicted_load_failure_did_not_occur')
        elif not obj['ok']:
            self.violation('import_ring', 'accepted spec with a three-namespace import ring: generated package fails to load when %s '
                           'is imported first: %s' % (obj['first'], r.stderr.strip().split('\n')[-1][:160]), ctx)

    def judge_surface(self, m, ctx):
        self.judged += 1
        try:
            mods = m.load()
        except Exception as e:
            self.violation(None, 'generated package fails to import: %s: %s' % (type(e).__name__, str(e)[:200]), ctx)
            return
        binder = Binder(m.schema, _FakeGen(mods))
        sc = m.schema
        from stone.backends.python_rsrc import stone_base as bb, stone_validators as bv

        def bad(msg):
            self.violation(None, '%s (model %s)' % (msg, m.c), ctx)
        for ns, surf in m.surfaces.items():
            mod = mods[ns]
            for s in _seq(surf['structs']):
                cls = getattr(mod, s['n'], None)
                if not inspect.isclass(cls):
                    bad('struct %s.%s is not a class' % (ns, s['n']))
                    continue
                base = cls.__bases__[0].__name__
                if base != (s['base'] or 'Struct'):
                    bad('class %s has base %s, spec parent %r' % (s['n'], base, s['base']))
                params = [p for p in inspect.signature(cls.__init__).parameters][1:]
                if params != _seq(s['ctor']):
                    bad('constructor of %s takes %s, expected %s' % (s['n'], params, s['ctor']))
                # build with every field given, read back; then a bare instance: read/write/delete
                ftypes = {f['n']: f['t'] for c in _chain(sc, s['n']) for f in sc[c]['fields']}
                vals = {}
                for fn, ft in ftypes.items():
                    vals[fn] = binder.to_py(ft, _some(sc, ft))
                try:
                    inst = cls(**vals)
                    for fn in ftypes:
                        if getattr(inst, fn) != vals[fn]:
                            bad('%s.%s reads %r after construction with %r' % (s['n'], fn, getattr(inst, fn), vals[fn]))
                    bare = cls()
                    for fn in ftypes:
                        setattr(bare, fn, vals[fn])
                        if getattr(bare, fn) != vals[fn]:
                            bad('%s.%s does not read back what was assigned' % (s['n'], fn))
                        delattr(bare, fn)
                        opt = _optional(sc, [f for c in _chain(sc, s['n']) for f in sc[c]['fields'] if f['n'] == fn][0])
                        try:
                            got = getattr(bare, fn)
                            if not opt:
                                bad('%s.%s readable after delete although required' % (s['n'], fn))
                        except AttributeError:
                            if opt:
                                bad('optional %s.%s raises AttributeError when unset' % (s['n'], fn))
                except Exception as e:
                    bad('exercising class %s raised %s: %s' % (s['n'], type(e).__name__, str(e)[:150]))
                if not isinstance(getattr(mod, s['n'] + '_validator', None), bv.Struct):
                    bad('%s_validator missing or not a struct validator' % s['n'])
            for u in _seq(surf['unions']):
                cls = getattr(mod, u['n'], None)
                if not inspect.isclass(cls):
                    bad('union %s.%s is not a class' % (ns, u['n']))
                    continue
                base = cls.__bases__[0].__name__
                if base != (u['base'] or 'Union'):
                    bad('class %s has base %s, spec parent %r' % (u['n'], base, u['base']))
                for t in _seq(u['void_tags']) + _seq(u['typed_tags']):
                    if not callable(getattr(cls, 'is_' + t, None)):
                        bad('%s.is_%s missing' % (u['n'], t))
                for t in _seq(u['void_tags']):
                    inst = getattr(cls, t, None)
                    # an inherited void tag is the parent union's instance (a parent value is valid for the child)
                    if not (isinstance(inst, bb.Union) and issubclass(cls, type(inst))) or inst._tag != t \
                            or not getattr(inst, 'is_' + t)():
                        bad('%s.%s is not a ready instance of the void tag' % (u['n'], t))
                for t in _seq(u['typed_tags']):
                    if not callable(getattr(cls, t, None)) or not callable(getattr(cls, 'get_' + t, None)):
                        bad('%s: constructor method or get_%s missing for typed tag' % (u['n'], t))
                        continue
                    tt = [x['t'] for c in _chain(sc, u['n']) for x in sc[c]['tags'] if x['n'] == t][0]
                    try:
                        v = binder.to_py(tt, _some(sc, tt))
                        inst = getattr(cls, t)(v)
                        if getattr(inst, 'get_' + t)() != v or not getattr(inst, 'is_' + t)():
                            bad('%s.%s(v).get_%s() does not return v' % (u['n'], t, t))
                    except Exception as e:
                        bad('%s.%s(...) raised %s: %s' % (u['n'], t, type(e).__name__, str(e)[:120]))
                if not isinstance(getattr(mod, u['n'] + '_validator', None), bv.Union):
                    bad('%s_validator missing or not a union validator' % u['n'])
            for n in _seq(surf['validators']):
                if not isinstance(getattr(mod, n + '_validator', None), bv.Validator):
                    bad('%s.%s_validator missing' % (ns, n))
            for n in _seq(surf['class_aliases']):
                target = sc[n]['t']
                while target['k'] != 'ref':
                    target = target['e']
                if getattr(mod, n, None) is not binder.cls(target['n']):
                    bad('alias %s is not bound to class %s' % (n, target['n']))
            routes = getattr(mod, 'ROUTES', None)
            exp_keys = set()
            for r in _seq(surf['routes']):
                key = r['n'] if r['ver'] == 1 else '%s:%d' % (r['n'], r['ver'])
                exp_keys.add(key)
                ro = getattr(mod, py_route_name(r['n'], r['ver']), None)
                if not isinstance(ro, bb.Route):
                    bad('route object %s.%s missing' % (ns, py_route_name(r['n'], r['ver'])))
                    continue
                if (ro.name, ro.version, bool(ro.deprecated)) != (r['n'], r['ver'], r['deprecated']):
                    bad('route %s: name/version/deprecated = %r' % (key, (ro.name, ro.version, ro.deprecated)))
                for attr, t in (('arg_type', r['arg']), ('result_type', r['res']), ('error_type', r['err'])):
                    v = getattr(ro, attr)
                    if t['k'] == 'void':
                        if not isinstance(v, bv.Void):
                            bad('route %s %s is %r, expected Void' % (key, attr, v))
                    elif v is not getattr(mods[sc[t['n']]['ns']], t['n'] + '_validator'):
                        bad('route %s %s is not %s_validator' % (key, attr, t['n']))
                want_attrs = dict(zip(_seq(r['attr_names']), [attr_val(a) for a in _seq(r['attrs'])]))
                if dict(ro.attrs) != want_attrs:
                    bad('route %s attrs %r, expected %r' % (key, ro.attrs, want_attrs))
                if not isinstance(routes, dict) or routes.get(key) is not ro:
                    bad('ROUTES[%r] is not the route object' % key)
            if exp_keys and (not isinstance(routes, dict) or set(routes) != exp_keys):
                bad('ROUTES of %s lists %s, expected %s' % (ns, sorted(routes or []), sorted(exp_keys)))

    # ------------------------------------------------------------------ C15
    def judge_stubs(self, m, ctx):
        self.judged += 1
        try:
            mods = m.load()
        except Exception as e:
            self.violation(None, 'runtime package fails to import: %s' % e, ctx)
            return

        def bad(msg):
            self.violation(None, '%s (model %s)' % (msg, m.c), ctx)
        for ns, surf in m.surfaces.items():
            path = os.path.join(m.tmp, 'stubs', m.surfaces[ns]['pymod'] + '.pyi')
            try:
                with open(path) as f:
                    tree = ast.parse(f.read())
            except (OSError, SyntaxError) as e:
                bad('stub %s.pyi missing or not valid Python: %s' % (ns, e))
                continue
            bound = set()
            classes, assigns = {}, {}
            for node in tree.body:
                if isinstance(node, (ast.Import, ast.ImportFrom)):
                    for a in node.names:
                        bound.add((a.asname or a.name).split('.')[0])
                elif isinstance(node, ast.ClassDef):
                    classes[node.name] = node
                    bound.add(node.name)
                elif isinstance(node, ast.AnnAssign) and isinstance(node.target, ast.Name):
                    assigns[node.target.id] = ast.unparse(node.annotation)
                    bound.add(node.target.id)
                elif isinstance(node, ast.Assign):
                    for t in node.targets:
                        if isinstance(t, ast.Name):
                            assigns[t.id] = ast.unparse(node.value)
                            bound.add(t.id)
            mod = mods[ns]
            runtime_classes = {v.__name__ for n, v in vars(mod).items() if inspect.isclass(v) and v.__module__ == mod.__name__}
            exp_classes = {s['n'] for s in _seq(surf['structs'])} | {u['n'] for u in _seq(surf['unions'])}
            if set(classes) != exp_classes:
                bad('stub %s declares classes %s, runtime/spec has %s' % (ns, sorted(classes), sorted(exp_classes)))
            if runtime_classes != exp_classes:
                bad('runtime %s defines classes %s, spec has %s' % (ns, sorted(runtime_classes), sorted(exp_classes)))

            def names_in(annotation):
                return {n.id for n in ast.walk(ast.parse(annotation, mode='eval')) if isinstance(n, ast.Name)}
            # every name used in ANY annotation of the stub (attributes, parameters, return types) is imported or defined
            builtin_ok = {'bb', 'bv', 'int', 'float', 'bool', 'bytes', 'None', 'str', 'object'}
            for node in ast.walk(tree):
                anns = []
                if isinstance(node, ast.AnnAssign):
                    anns.append(node.annotation)
                elif isinstance(node, (ast.FunctionDef, ast.AsyncFunctionDef)):
                    anns += [a.annotation for a in node.args.args + node.args.kwonlyargs if a.annotation is not None]
                    if node.returns is not None:
                        anns.append(node.returns)
                for an in anns:
                    missing = {x.id for x in ast.walk(an) if isinstance(x, ast.Name)} - bound - builtin_ok
                    if missing:
                        bad('stub %s uses unbound name(s) %s in the annotation %s' % (ns, sorted(missing), ast.unparse(an)[:80])
                            )
            for s in _seq(surf['structs']):
                node = classes.get(s['n'])
                if node is None:
                    continue
                base = ast.unparse(node.bases[0]) if node.bases else ''
                exp_base = 'bb.Struct' if not s['base'] else _qual(m.schema, ns, s['base'])
                if base != exp_base:
                    bad('stub class %s has base %s, runtime base is %s' % (s['n'], base, exp_base))
                init = [x for x in node.body if isinstance(x, ast.FunctionDef) and x.name == '__init__']
                params = [a.arg for a in init[0].args.args][1:] if init else None
                if params != _seq(s['ctor']):
                    bad('stub constructor of %s takes %s, runtime takes %s' % (s['n'], params, s['ctor']))
                attrs = {x.target.id: ast.unparse(x.annotation) for x in node.body
                         if isinstance(x, ast.AnnAssign) and isinstance(x.target, ast.Name)}
                if set(attrs) != set(_seq(s['fields'])):
                    bad('stub %s declares attributes %s, runtime has %s' % (s['n'], sorted(attrs), sorted(_seq(s['fields']))))
                for f in _seq(s['own']):
                    want = 'bb.Attribute[%s]' % pep(f['t'])
                    if f['n'] in attrs and attrs[f['n']] != want:
                        bad('stub %s.%s is annotated %s, the Stone type maps to %s' % (s['n'], f['n'], attrs[f['n']], want))
                for a in attrs.values():
                    missing = {x for x in names_in(a)} - bound - {'bb', 'bv', 'int', 'float', 'bool', 'bytes', 'None'}
                    if missing:
                        bad('stub %s uses unbound name(s) %s in an annotation' % (ns, sorted(missing)))
            for u in _seq(surf['unions']):
                node = classes.get(u['n'])
                if node is None:
                    continue
                base = ast.unparse(node.bases[0]) if node.bases else ''
                exp_base = 'bb.Union' if not u['base'] else _qual(m.schema, ns, u['base'])
                if base != exp_base:
                    bad('stub class %s has base %s, runtime base is %s' % (u['n'], base, exp_base))
                methods = {x.name: x for x in node.body if isinstance(x, ast.FunctionDef)}
                attrs = {x.target.id: ast.unparse(x.annotation) for x in node.body
                         if isinstance(x, ast.AnnAssign) and isinstance(x.target, ast.Name)}
                own = {t['n']: t['t'] for t in _seq(u['own'])}
                for t, tt in own.items():
                    if 'is_' + t not in methods:
                        bad('stub %s lacks is_%s' % (u['n'], t))
                    if tt['k'] == 'None':
                        if t not in attrs:
                            bad('stub %s lacks the void tag attribute %s' % (u['n'], t))
                    else:
                        inner = tt            # a nullable member maps to Optional[...]
                        if t not in methods or 'get_' + t not in methods:
                            bad('stub %s lacks the constructor method or get_%s' % (u['n'], t))
                            continue
                        got = ast.unparse(methods['get_' + t].returns) if methods['get_' + t].returns else None
                        if got != pep(inner):
                            bad('stub %s.get_%s returns %s, the Stone type maps to %s' % (u['n'], t, got, pep(inner)))
                        arg = methods[t].args.args[1].annotation
                        if arg is None or ast.unparse(arg) != pep(inner):
                            bad('stub %s.%s takes %s, the Stone type maps to %s'
                                % (u['n'], t, ast.unparse(arg) if arg else None, pep(inner)))
                extra = {n[3:] for n in methods if n.startswith('is_')} - set(own)
                if extra:
                    bad('stub %s declares is_ helpers for %s which the union does not define itself' % (u['n'], sorted(extra)))
            for n in _seq(surf['validators']):
                if n + '_validator' not in assigns:
                    bad('stub %s lacks %s_validator' % (ns, n))
            for n in _seq(surf['class_aliases']):
                if n not in assigns:
                    bad('stub %s lacks the alias binding %s' % (ns, n))
                if not inspect.isclass(getattr(mod, n, None)):
                    bad('stub %s declares the alias binding %s, the runtime module does not define it' % (ns, n))
            # names bound to classes: the stub and the runtime module agree
            rt_bound = {k for k, v in vars(mod).items() if inspect.isclass(v) and v.__module__.startswith(m.pkg + '.')}
            stub_bound = set(classes) | {k for k in assigns if k in surf_names(surf)}
            if rt_bound != stub_bound:
                bad('names bound to classes differ: only in the stub %s, only at runtime %s'
                    % (sorted(stub_bound - rt_bound), sorted(rt_bound - stub_bound)))
            for r in _seq(surf['routes']):
                pn = py_route_name(r['n'], r['ver'])
                if assigns.get(pn) != 'bb.Route':
                    bad('stub %s lacks route object %s' % (ns, pn))
            stub_validators = {k for k in assigns if k.endswith('_validator')}
            rt_validators = {k for k in vars(mod) if k.endswith('_validator')}
            if stub_validators != rt_validators:
                bad('stub %s declares validators %s, runtime defines %s' % (ns, sorted(stub_validators), sorted(rt_validators)))

    # ------------------------------------------------------------------ C14
    def judge_call(self, m, obj, ctx):
        self.judged += 1
        try:
            mods = m.load()
            climod = importlib.import_module('client_' + m.pkg)
        except Exception as e:
            self.violation('client_import_%s' % type(e).__name__, 'python_client output does not import next to python_types: %s: %s'
                           % (type(e).__name__, str(e)[:200]), ctx)
            return
        req = obj['request']
        sig = obj['sig']
        route = m.routes[obj['route'] - 1]
        sc = m.schema
        calls = []

        class Rec(climod.Client):
            def request(self, route, namespace, request_arg, request_binary, timeout=None):
                calls.append((route, namespace, request_arg, request_binary))
                return 'RESULT'
        method_name = '%s_%s' % (req['method']['ns'], py_route_name(req['method']['n'], req['method']['ver']))
        method = getattr(Rec(), method_name, None)
        if method is None:
            self.violation(None, 'client has no method %s (model %s)' % (method_name, m.c), ctx)
            return
        binder = Binder(sc, _FakeGen(mods))
        params = _seq(sig['required']) + _seq(sig['optional'])
        # signature
        real_params = [p for p in inspect.signature(method).parameters]
        exp_params = (['f'] if req['body'] else []) + params
        if real_params != exp_params:
            self.violation(None, 'method %s has parameters %s, expected %s (model %s)' % (method_name, real_params, exp_params, m.c), ctx)
            return
        if sig['kind'] == 'struct':
            ftypes = {f['n']: f for c in _chain(sc, route['arg']['n']) for f in sc[c]['fields']}
            for p, spec in inspect.signature(method).parameters.items():
                if p in _seq(sig['optional']):
                    d = ftypes[p]['d']
                    want = None if d['k'] == 'nodefault' else binder.to_py(ftypes[p]['t'], d)
                    if spec.default != want and not (spec.default is None and want is None):
                        self.violation(None, 'parameter %s of %s defaults to %r, the spec default is %r' % (p, method_name, spec.default, want), ctx)
                elif p in _seq(sig['required']) and spec.default is not inspect.Parameter.empty:
                    self.violation(None, 'required parameter %s of %s has a default' % (p, method_name), ctx)
        # values: a distinct value per field so that a swap shows
        vals = {}
        if sig['kind'] == 'struct':
            for i, p in enumerate(params):
                vals[p] = _distinct(binder, sc, ftypes[p]['t'], i)
        elif sig['kind'] == 'union':
            vals['arg'] = binder.to_py(route['arg'], _some(sc, route['arg']))
        given = _seq(req['given'])
        pos = [vals[p] for p in params[:obj['shape']['npos']]]
        kw = {p: vals[p] for p in _seq(obj['shape']['kw'])}
        if req['body']:
            pos = [b'BODY'] + pos
        with warnings.catch_warnings(record=True) as w:
            warnings.simplefilter('always')
            try:
                ret = method(*pos, **kw)
            except Exception as e:
                self.violation(None, 'calling %s(%d positional, keywords %s) raised %s: %s (model %s)'
                               % (method_name, obj['shape']['npos'], sorted(kw), type(e).__name__, str(e)[:160], m.c), ctx)
                return
        if self.judged % 499 == 1:
            self.sample({'model': m.c, 'method': method_name, 'positional': obj['shape']['npos'], 'keywords': sorted(kw)})
        what = '%s(%d positional, keywords %s), model %s' % (method_name, obj['shape']['npos'], sorted(kw), m.c)
        if len(calls) != 1:
            self.violation(None, '%d requests issued by %s' % (len(calls), what), ctx)
            return
        r_route, r_ns, r_arg, r_bin = calls[0]
        exp_route = getattr(mods[req['namespace']], py_route_name(req['route']['n'], req['route']['ver']))
        if r_route is not exp_route:
            self.violation(None, 'request carries route %r, expected %s: %s' % (r_route, req['route'], what), ctx)
        if r_ns != req['namespace']:
            self.violation(None, 'request carries namespace %r: %s' % (r_ns, what), ctx)
        if sig['kind'] == 'void':
            if r_arg is not None:
                self.violation(None, 'Void route sends argument %r: %s' % (r_arg, what), ctx)
        elif sig['kind'] == 'union':
            if r_arg is not vals['arg'] and r_arg != vals['arg']:
                self.violation(None, 'union argument not passed through: %s' % what, ctx)
        else:
            cls = binder.cls(route['arg']['n'])
            expected = cls(**{p: vals[p] for p in given})
            try:
                same = (r_arg == expected) and type(r_arg) is cls
            except Exception:          # e.g. a required field of the argument was never set
                same = False
            if not same:
                got = {p: getattr(r_arg, '_%s_value' % p, '?') for p in params}
                want = {p: getattr(expected, '_%s_value' % p, '?') for p in params}
                self.violation(None, 'request argument differs from the struct built from the parameters: got %r, expected %r: %s'
                               % (got, want, what), ctx)
        if (r_bin == b'BODY') != bool(req['body']) or (not req['body'] and r_bin is not None):
            self.violation(None, 'upload body handling wrong (sent %r): %s' % (r_bin, what), ctx)
        warned = any(issubclass(x.category, DeprecationWarning) for x in w)
        if warned != req['warn']:
            self.violation(None, 'deprecation warning %s: %s' % ('missing' if req['warn'] else 'unexpected', what), ctx)
        if req['returns_none']:
            if ret is not None:
                self.violation(None, 'Void result but the method returned %r: %s' % (ret, what), ctx)
        elif ret != 'RESULT':
            self.violation(None, 'method did not return the result of request(): %r: %s' % (ret, what), ctx)


class _FakeGen:
    def __init__(self, mods):
        self.mods = mods

    def module(self, ns):
        return self.mods[ns]


def _seq(x):
    return x if isinstance(x, list) else []


def _chain(sc, n):
    out = []
    while n:
        out.append(n)
        n = sc[n]['parent']
    return out[::-1]


def surf_names(surf):
    return {s_['n'] for s_ in _seq(surf['structs'])} | {u['n'] for u in _seq(surf['unions'])} | set(_seq(surf['class_aliases']))


def _unalias(sc, t):
    while t['k'] == 'ref' and sc[t['n']]['k'] == 'alias':
        t = sc[t['n']]['t']
    return t


def _optional(sc, f):
    return f['d']['k'] != 'nodefault' or _unalias(sc, f['t'])['k'] == 'nullable'


def _qual(sc, ns, n):
    return n if sc[n]['ns'] == ns else '%s.%s' % (pymod(sc[n]['ns']), n)


def _some(sc, t, depth=0):
    """A non-null abstract value of type t (mirrors StoneWire!Some, python side only needs any valid value)."""
    k = t['k']
    if k == 'nullable':
        return _some(sc, t['e'], depth)
    if k == 'int':
        return {'k': 'int', 'r': 10}
    if k == 'float':
        return {'k': 'float', 'r': 9}
    if k == 'str':
        return {'k': 'str', 'len': max(1, t['min']), 'ok': True, 'u': 0}
    if k == 'bool':
        return {'k': 'bool', 'b': True}
    if k == 'ts':
        return {'k': 'ts', 'id': 0}
    if k == 'bytes':
        return {'k': 'bytes', 'len': 2, 'id': 0}
    if k == 'list':
        return {'k': 'list', 'items': [_some(sc, t['e'], depth)]}
    if k == 'map':
        return {'k': 'map', 'm': {'k1': _some(sc, t['v'], depth)}}
    if k == 'ref':
        d = sc[t['n']]
        if d['k'] == 'alias':
            return _some(sc, d['t'], depth)
        if d['k'] == 'union':
            tags = [x for c in _chain(sc, t['n']) for x in sc[c]['tags']]
            void = [x for x in tags if x['t']['k'] == 'void'][0]
            return {'k': 'union', 'c': t['n'], 'tag': void['n'], 'v': {'k': 'none'}}
        if d['k'] == 'struct':
            c = d['subs'][0]['sub'] if d['subs'] else t['n']
            f = {}
            for cc in _chain(sc, c):
                for fd in sc[cc]['fields']:
                    if not _optional(sc, fd):
                        f[fd['n']] = _some(sc, fd['t'], depth + 1)
            return {'k': 'struct', 'c': c, 'f': f}
    raise ValueError(t)


def _distinct(binder, sc, t, i):
    """A valid python value of type t that differs for different i."""
    u = _unalias(sc, t)
    if u['k'] == 'nullable':
        u = _unalias(sc, u['e'])
    if u['k'] == 'str':
        return 'v%d' % i
    if u['k'] == 'int':
        return 100 + i
    if u['k'] == 'float':
        return 100.5 + i
    if u['k'] == 'bool':
        return i % 2 == 0
    return binder.to_py(t, _some(sc, t))

"""C18 judge: StoneEmit vectors (paths, emit scripts, manifest scripts) replayed on real Backend subclasses."""
import contextlib
import json
import os
import shutil
import tempfile

from runner import Judge

CH = {'a': 'a', ' ': ' ', '{': '{', '}': '}', '0': '0', 'x': 'x', '%': '%', 'e': 'é', 'b': '\\', '\n': '\n',
      '(': '(', ')': ')', 'h': '-'}
SEG = {'n': 'n', 'm': 'm', 'u': 'üñ', 'o+': 'out_old', '.': '.', '..': '..', '': '', 'x': 'x', 'k': 'k', 'c': 'c', 's': 's'}


def text(chars):
    return ''.join(CH[c] for c in (chars if isinstance(chars, list) else []))


def tree(root):
    files, dirs = set(), set()
    for d, ds, fs in os.walk(root):
        for x in ds:
            dirs.add(os.path.relpath(os.path.join(d, x), root))
        for x in fs:
            files.add(os.path.relpath(os.path.join(d, x), root))
    return files, dirs


class EmitJudge(Judge):
    def __init__(self, params):
        super().__init__(params)
        from stone.backend import CodeBackend, OutputManifest
        from stone.backends.swift import SwiftBaseBackend

        class B(CodeBackend):
            def generate(self, api):
                pass

        class SB(SwiftBaseBackend):
            def generate(self, api):
                pass
        self.B, self.SB, self.OutputManifest = B, SB, OutputManifest
        self.seen = set()

    @contextlib.contextmanager
    def sandbox(self):
        P = tempfile.mkdtemp(prefix='verif-emit-')
        try:
            root = os.path.join(P, 'T', 'out')
            os.makedirs(root)
            os.makedirs(os.path.join(P, 'T', 'out_old'))
            src = os.path.join(P, 'src.bin')
            with open(src, 'wb') as f:
                f.write(b'payload')
            yield P, root, src
        finally:
            shutil.rmtree(P, ignore_errors=True)

    def concrete(self, P, root, p):
        segs = [SEG[s] for s in p['segs']]
        if segs and segs[0] == '':
            segs[0] = '.'              # a leading empty segment cannot be written in a relative path
        rel = '/'.join(segs) + ('/' if p['slash'] else '')
        if p['abs'] == 'rel':
            return rel
        base = {'root': P, 'inroot': root, 'sibling': os.path.join(P, 'T', 'out_old')}[p['abs']]
        return base + '/' + rel

    def on_vec(self, tag, obj):
        if tag != 'VEC':
            return
        key = json.dumps(obj, sort_keys=True)
        if key in self.seen:
            return
        self.seen.add(key)
        self.n += 1
        getattr(self, 'judge_' + obj['mode'])(obj)

    # ------------------------------------------------------------------ paths
    def judge_paths(self, obj):
        p = obj['path']
        for entry in ('open', 'copy', 'swift'):
            with self.sandbox() as (P, root, src):
                cp = self.concrete(P, root, p)
                before = tree(P)
                exc = None
                try:
                    if entry == 'open':
                        b = self.B(root, [])
                        with b.output_to_relative_path(cp):
                            b.emit('a')
                    elif entry == 'copy':
                        b = self.B(root, [])
                        b.copy_to_path(src, os.path.join(root, cp))
                    else:
                        b = self.SB(root, [])
                        b._write_output_in_target_folder('a\n', cp)
                except BaseException as e:
                    exc = e
                after = tree(P)
                new_files = after[0] - before[0]
                new_dirs = after[1] - before[1]
                ctx = {'vector': obj, 'entry': entry, 'path': cp.replace(P, '<P>')}
                self.judged += 1
                if self.judged % 1499 == 1:
                    self.sample({'entry': entry, 'path': ctx['path'], 'verdict': obj['verdict']})
                resolved = '/'.join(SEG[s] if s in SEG else s for s in obj['resolved'])
                outside = {f for f in new_files | new_dirs if not (f == 'T/out' or f.startswith('T/out/'))}
                what = '%s(%r)' % (entry, ctx['path'])
                if outside:
                    self.violation(None, '%s created %s outside the output folder' % (what, sorted(outside)), ctx)
                    continue
                if obj['verdict'] == 'refused':
                    self.count('must_refuse')
                    if exc is None:
                        self.violation(None, '%s escapes the output folder but was not refused' % what, ctx)
                    elif new_files or new_dirs:
                        self.violation(None, '%s was refused only after creating %s' % (what, sorted(new_files | new_dirs)), ctx)
                elif obj['verdict'] == 'written':
                    self.count('must_write')
                    if exc is not None and not new_files and not new_dirs:
                        self.skip('inside_path_refused_before_any_write')     # all or nothing: allowed
                    elif exc is not None:
                        cls = 'inside_path_fails_%s' % type(exc).__name__
                        self.violation(cls, '%s stays inside the output folder (%s) but failed with %s: %s%s'
                                       % (what, resolved, type(exc).__name__, str(exc).replace(P, '<P>')[:120],
                                          (' after creating %s' % sorted(new_files | new_dirs)) if (new_files | new_dirs) else ''), ctx)
                    elif new_files != {resolved}:
                        self.violation(None, '%s should create exactly %s, created %s' % (what, resolved, sorted(new_files)), ctx)
                else:
                    self.skip('directory_like_path')

    # ------------------------------------------------------------------ emit scripts
    def judge_emit(self, obj):
        script = obj['script']
        exp = obj['file']
        with self.sandbox() as (P, root, src):
            b = self.B(root, [])
            ctx = {'vector': obj}
            exc = None
            try:
                with b.output_to_relative_path('f.txt'):
                    with contextlib.ExitStack() as stack:
                        ctxs = []
                        for o in script:
                            op = o['op']
                            if op == 'emit':
                                b.emit(text(o['s']))
                            elif op == 'raw':
                                b.emit_raw(text(o['s']) + '\n')
                            elif op == 'indent':
                                cm = b.indent()
                                cm.__enter__()
                                ctxs.append(cm)
                            elif op == 'block':
                                cm = b.block(text(o['before']), delim=('{', '}'))
                                cm.__enter__()
                                ctxs.append(cm)
                            elif op == 'pop':
                                if ctxs:
                                    ctxs.pop().__exit__(None, None, None)
                            elif op == 'holder':
                                b.emit_placeholder(o['n'])
                            elif op == 'fill':
                                if o['n']:
                                    b.add_named_placeholder(o['n'], text(o['s']))
                                else:
                                    b.add_positional_placeholder(text(o['s']))
                            elif op == 'wrap':
                                b.emit_wrapped_text(' '.join(text(w) for w in o['ws']), prefix=text(o['p']),
                                                    initial_prefix=text(o['ip']), subsequent_prefix=text(o['sp']),
                                                    width=o['w'], break_long_words=o['blw'], break_on_hyphens=o['hy'])
                            elif op == 'list':
                                b.generate_multiline_list(['a0'] * o['k'], before='a', delim=('(', ')'), sep='%',
                                                          compact=o['compact'])
                        while ctxs:
                            ctxs.pop().__exit__(None, None, None)
            except Exception as e:
                exc = e
            self.judged += 1
            if self.judged % 9973 == 1:
                self.sample({'script': script, 'expected': text(exp['s']) if exp['ok'] else None})
            if not exp['ok']:
                self.skip('unregistered_placeholder')
                return
            if exc is not None:
                self.violation('emit_exc_%s' % type(exc).__name__, 'emit script raised %s: %s for %s'
                               % (type(exc).__name__, exc, json.dumps(script)[:300]), ctx)
                return
            with open(os.path.join(root, 'f.txt'), 'rb') as f:
                got = f.read()
            want = text(exp['s']).encode('utf-8')
            if got != want:
                self.violation(None, 'file content %r differs from the emitted text %r for %s'
                               % (got[:120], want[:120], json.dumps(script)[:300]), ctx)

    # ------------------------------------------------------------------ manifest scripts
    def run_script(self, script, manifest):
        with self.sandbox() as (P, root, src):
            om = self.OutputManifest() if manifest else None
            b = self.B(root, [], output_manifest=om)
            sb = self.SB(root, [])
            sb.output_manifest = om
            refused = False
            try:
                for o in script:
                    p = '/'.join(SEG[s] for s in o['p'])
                    if o['op'] == 'open':
                        with b.output_to_relative_path(p):
                            b.emit('a')
                    elif o['op'] == 'copy':
                        b.copy_to_path(src, os.path.join(root, p))
                    else:
                        sb._write_output_in_target_folder('a\n', p)
            except AssertionError:
                refused = True
            except Exception as e:
                return {'exc': e}
            files = {os.path.relpath(os.path.join(P, f), root) for f in tree(P)[0] if f.startswith('T/out/')}
            other = {f for f in tree(P)[0] if not f.startswith('T/out/') and f != 'src.bin'}
            return {'refused': refused, 'files': files, 'outside': other,
                    'manifest': set(om.outputs()) if om else None}

    def judge_manifest(self, obj):
        script = obj['script']
        ctx = {'vector': obj}
        real = self.run_script(script, False)
        man = self.run_script(script, True)
        self.judged += 1
        if self.judged % 499 == 1:
            self.sample({'script': script, 'files': obj['files'], 'refused': obj['refused']})
        exp_files = {'/'.join(SEG.get(s, s) for s in f[2:]) for f in (obj['files'] if isinstance(obj['files'], list) else [])}
        for r, name in ((real, 'real run'), (man, 'manifest run')):
            if 'exc' in r:
                cls = 'inside_path_fails_%s' % type(r['exc']).__name__
                self.violation(cls, '%s of %s failed with %s: %s' % (name, json.dumps(script), type(r['exc']).__name__,
                                                                    str(r['exc'])[-80:]), ctx)
                return
            if r['outside']:
                self.violation(None, '%s created files outside the output folder: %s' % (name, sorted(r['outside'])), ctx)
        if real['refused'] != obj['refused'] or man['refused'] != obj['refused']:
            self.violation(None, 'refusal differs: predicted %s, real run %s, manifest run %s for %s'
                           % (obj['refused'], real['refused'], man['refused'], json.dumps(script)), ctx)
            return
        if man['files']:
            self.violation(None, 'manifest run created files %s' % sorted(man['files']), ctx)
        if real['files'] != exp_files:
            self.violation(None, 'real run created %s, predicted %s for %s' % (sorted(real['files']), sorted(exp_files),
                                                                              json.dumps(script)), ctx)
        if man['manifest'] != real['files']:
            self.violation(None, 'manifest %s differs from the files of the real run %s for %s'
                           % (sorted(man['manifest']), sorted(real['files']), json.dumps(script)), ctx)

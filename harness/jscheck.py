"""C16 judge: StoneLoadMC models -> js_client, js_types, tsd_client, tsd_types output."""
import importlib
import json
import os
import re
import shutil
import subprocess
import tempfile

from runner import Judge
from wire import norm_abs
from loadcheck import render_model, _seq, attr_val


# ------------------------------------------------------------------ documented naming conversions (independent)
def words(name):
    out = []
    for part in re.split(r'[_/\-]+', name):
        out += re.findall(r'[A-Z]?[a-z0-9]+|[A-Z]+(?![a-z])', part) or ([part] if part else [])
    return out


def camel(name):
    w = words(name)
    return w[0].lower() + ''.join(x.capitalize() for x in w[1:])


def pascal(name):
    return ''.join(x.capitalize() for x in words(name))


def route_fn(ns, n, ver):
    return camel(ns + '_' + n) + ('V%d' % ver if ver != 1 else '')


def route_url(ns, n, ver):
    return '%s/%s%s' % (ns, n, '_v%d' % ver if ver != 1 else '')


class Ctx:
    def __init__(self, schema):
        self.schema = schema

    def subs_of(self, n):
        return [s['sub'] for s in _seq(self.schema[n].get('subs'))]

    # JSDoc type of a symbolic type
    def js(self, sym):
        k = sym['k']
        if k in ('int', 'float'):
            return 'number'
        if k in ('str', 'bytes'):
            return 'string'
        if k == 'bool':
            return 'boolean'
        if k == 'ts':
            return 'Timestamp'
        if k == 'void':
            return 'void'
        if k == 'list':
            return 'Array.<%s>' % self.js(sym['e'])
        if k == 'map':
            return 'Object'
        if k == 'nullable':
            return self.js(sym['e'])
        if k == 'alias':
            return self.js(self.alias_target(sym))
        if k == 'struct' and self.subs_of(sym['n']):
            names = [pascal(self.schema[s]['ns'] + '_' + s) for s in self.subs_of(sym['n'])]
            if self.schema[sym['n']]['catchall']:
                names.append(pascal(sym['ns'] + '_' + sym['n']))
            return '(%s)' % '|'.join(names) if len(names) > 1 else names[0]
        return pascal(sym['ns'] + '_' + sym['n'])

    def alias_target(self, sym):
        return sym_of(self.schema, self.schema[sym['n']]['ns'], self.schema[sym['n']]['t'])

    # TypeScript type of a symbolic type, seen from namespace cur
    def ts(self, sym, cur, expand=True):
        k = sym['k']
        if k in ('int', 'float'):
            return 'number'
        if k in ('str', 'bytes'):
            return 'string'
        if k == 'bool':
            return 'boolean'
        if k == 'ts':
            return 'Timestamp'
        if k == 'void':
            return 'void'
        if k == 'list':
            return 'Array<%s>' % self.ts(sym['e'], cur)
        if k == 'map':
            # the mapped type of a map VALUE is the type's name: a struct with enumerated subtypes is named by its
            # root, not by the union of its references (pinned by the repository's own test_tsd_types_for_union:
            # `mapfield: {[key: string]: A}`); list items below that value are expanded again
            return '{[key: string]: %s}' % self.ts(sym['v'], cur, expand=False)
        if k == 'nullable':
            return self.ts(sym['e'], cur, expand)
        q = '' if sym['ns'] == cur else sym['ns'] + '.'
        if k == 'struct' and expand and self.subs_of(sym['n']):
            names = [('' if self.schema[s]['ns'] == cur else self.schema[s]['ns'] + '.') + s + 'Reference'
                     for s in self.subs_of(sym['n'])]
            if self.schema[sym['n']]['catchall']:
                names.append(q + sym['n'] + 'Reference')
            return '|'.join(names)
        return q + sym['n']


def sym_of(schema, cur, t):
    k = t['k']
    if k in ('int', 'float'):
        return {'k': k, 'p': t['p']}
    if k in ('str', 'bytes', 'bool', 'ts', 'void'):
        return {'k': k}
    if k == 'list':
        return {'k': 'list', 'e': sym_of(schema, cur, t['e'])}
    if k == 'map':
        return {'k': 'map', 'v': sym_of(schema, cur, t['v'])}
    if k == 'nullable':
        return {'k': 'nullable', 'e': sym_of(schema, cur, t['e'])}
    d = schema[t['n']]
    return {'k': 'alias' if d['k'] == 'alias' else d['k'], 'ns': d['ns'], 'n': t['n']}


# ------------------------------------------------------------------ scanners
def scan_jsdoc(text):
    """typedef name -> list of (name, type, optional); counts of declarations"""
    defs, counts = {}, {}
    for block in re.findall(r'/\*\*(.*?)\*/', text, re.S):
        m = re.search(r'@typedef \{([^}]*)\} (\w+)', block)
        if not m:
            continue
        name = m.group(2)
        counts[name] = counts.get(name, 0) + 1
        props = []
        for pm in re.finditer(r'@property \{((?:[^{}]|\{[^{}]*\})*)\} (\[?[\w.]+\]?)', block):
            pname = pm.group(2)
            props.append((pname.strip('[]'), pm.group(1), pname.startswith('[')))
        defs[name] = {'base': m.group(1), 'props': props}
    return defs, counts


def scan_dts(text):
    """namespace -> {'interfaces': {name: {'extends', 'members': [(name, optional, type)]}}, 'types': {name: rhs}}, counts"""
    out, counts = {}, {}
    pos = 0
    for nm in re.finditer(r"^\s*(?:export )?(?:declare )?(?:namespace (\w+)|module '(\w+)') \{", text, re.M):
        ns = nm.group(1) or nm.group(2)
        depth, i = 1, nm.end()
        while depth and i < len(text):
            if text[i] == '{':
                depth += 1
            elif text[i] == '}':
                depth -= 1
            i += 1
        body = text[nm.end():i - 1]
        body = re.sub(r'/\*.*?\*/', '', body, flags=re.S)
        d = out.setdefault(ns, {'interfaces': {}, 'types': {}})
        for im in re.finditer(r'export interface (\w+)(?: extends ([\w.]+))? \{(.*?)\n\s*\}', body, re.S):
            counts[(ns, im.group(1))] = counts.get((ns, im.group(1)), 0) + 1
            members = []
            for mm in re.finditer(r"^\s*('?[\w.]+'?)(\?)?: (.+);\s*$", im.group(3), re.M):
                members.append((mm.group(1).strip("'"), bool(mm.group(2)), mm.group(3)))
            d['interfaces'][im.group(1)] = {'extends': im.group(2), 'members': members}
        for tm in re.finditer(r'export type (\w+) = (.+);', body):
            counts[(ns, tm.group(1))] = counts.get((ns, tm.group(1)), 0) + 1
            d['types'][tm.group(1)] = tm.group(2)
    return out, counts


def ts_names(type_text):
    """user type names referenced in a TypeScript type expression"""
    t = re.sub(r"'[^']*'|\"[^\"]*\"", '', type_text)
    t = re.sub(r'\[key: string\]', '', t)
    return [x for x in re.findall(r'[A-Za-z_][\w.]*', t)
            if x not in ('number', 'string', 'boolean', 'Array', 'Object', 'void', 'Timestamp', 'key', 'Promise', 'Error')]


class JsJudge(Judge):
    def on_vec(self, tag, obj):
        if tag != 'VEC':
            return
        obj = norm_abs(obj)
        if obj['phase'] != 'model' or obj['c']['ring']:
            return
        self.n += 1
        self.judged += 1
        self.model(obj)

    def gen(self, specs, backend, args, prep=None):
        from stone.frontend.frontend import specs_to_ir
        from stone.compiler import Compiler
        out = tempfile.mkdtemp(prefix='verif-js-')
        if prep:
            prep(out)
        api = specs_to_ir(list(specs))
        Compiler(api, importlib.import_module('stone.backends.' + backend), list(args), out).build()
        return out

    def model(self, obj):
        schema, routes, surfaces = obj['schema'], obj['routes'], obj['surfaces']
        specs = render_model(schema, routes)
        ctx = {'vector': {'cfg': obj['cfg'], 'c': obj['c']}, 'specs': specs}
        cx = Ctx(schema)

        def bad(msg, cls=None):
            self.violation(cls, '%s (model %s)' % (msg, obj['c']), ctx)
        if self.judged % 37 == 1:
            self.sample({'model': obj['c'], 'routes': [(r['ns'], r['n'], r['ver']) for r in routes]})
        all_routes = [r for s in surfaces.values() for r in _seq(s['routes'])]
        dirs = []
        try:
            # ---------------------------------------------------------- js_client
            for args in (['routes.js'], ['routes.js', '-c', 'Cls', '--wrap-response-in', 'R', '--wrap-error-in', 'E', '-a', 'style']):
                try:
                    d = self.gen(specs, 'js_client', args)
                except Exception as e:
                    bad('js_client %s failed: %s: %s' % (args[1:3], type(e).__name__, str(e)[:200]), 'js_client_fails')
                    continue
                dirs.append(d)
                path = os.path.join(d, 'routes.js')
                r = subprocess.run(['node', '--check', path], capture_output=True, text=True)
                if r.returncode != 0:
                    bad('js_client output does not parse as JavaScript: %s' % r.stderr.strip().split('\n')[-1][:200])
                    continue
                harness = ("var fs=require('fs');var src=fs.readFileSync(%r,'utf8').replace(/^export \\{[^}]*\\};?\\s*$/m,'');"
                           "var routes=(new Function(src+';return routes;'))();var calls={};"
                           "Object.keys(routes).forEach(function(k){var rec={request:function(){calls[k]=Array.prototype.slice.call(arguments);}};"
                           "routes[k].call(rec,'ARG');});console.log(JSON.stringify(calls));") % path
                r = subprocess.run(['node', '-e', harness], capture_output=True, text=True)
                if r.returncode != 0:
                    bad('evaluating js_client output failed: %s' % r.stderr.strip().split('\n')[-1][:200])
                    continue
                calls = json.loads(r.stdout)
                exp = {}
                for s in surfaces.values():
                    for rt in _seq(s['routes']):
                        exp[route_fn(s['ns'], rt['n'], rt['ver'])] = \
                            [route_url(s['ns'], rt['n'], rt['ver']), 'ARG' if rt['has_arg'] else None] + [attr_val(a) for a in _seq(rt['attrs'])]
                self.count('js_client_functions', len(calls))
                if set(calls) != set(exp):
                    bad('js_client defines functions %s, the API has route versions %s' % (sorted(calls), sorted(exp)))
                for k in set(calls) & set(exp):
                    if calls[k] != exp[k]:
                        bad('js_client %s requests %s, expected %s' % (k, calls[k], exp[k]))
            # ---------------------------------------------------------- js_types
            try:
                d = self.gen(specs, 'js_types', ['types.js'])
                dirs.append(d)
                text = open(os.path.join(d, 'types.js')).read()
                defs, counts = scan_jsdoc(text)
                builtin = {'Error', 'UserMessage', 'Timestamp'}
                exp_names = set()
                for s in surfaces.values():
                    for st in _seq(s['structs']):
                        name = pascal(s['ns'] + '_' + st['n'])
                        exp_names.add(name)
                        got = defs.get(name)
                        if not got:
                            continue
                        props = {p[0]: p for p in got['props'] if p[0] != '.tag'}
                        members = _seq(st['all_members'])
                        if set(props) != {m['n'] for m in members}:
                            bad('js_types %s lists properties %s, the struct has fields %s' % (name, sorted(props), sorted(m['n'] for m in members)))
                        for m in members:
                            if m['n'] not in props:
                                continue
                            _, ty, opt = props[m['n']]
                            if opt != m['nullable']:
                                bad('js_types %s.%s is %s in JSDoc, the field is %snullable'
                                    % (name, m['n'], 'optional' if opt else 'required', '' if m['nullable'] else 'not '))
                            if ty != cx.js(m['sym']):
                                bad('js_types %s.%s has type {%s}, the Stone type maps to {%s}' % (name, m['n'], ty, cx.js(m['sym'])))
                    for u in _seq(s['unions']):
                        name = pascal(s['ns'] + '_' + u['n'])
                        exp_names.add(name)
                        got = defs.get(name)
                        if not got:
                            continue
                        props = {p[0]: p for p in got['props']}
                        typed = [m for m in _seq(u['all_members']) if not m['void']]
                        if '.tag' not in props:
                            bad('js_types union %s has no .tag property' % name)
                        if set(props) - {'.tag'} != {m['n'] for m in typed}:
                            bad('js_types union %s lists members %s, typed tags are %s'
                                % (name, sorted(set(props) - {'.tag'}), sorted(m['n'] for m in typed)))
                        for m in typed:
                            if m['n'] in props and props[m['n']][1] != cx.js(m['sym']):
                                bad('js_types %s.%s has type {%s}, the Stone type maps to {%s}' % (name, m['n'], props[m['n']][1], cx.js(m['sym'])))
                        tagt = props.get('.tag', (None, '', None))[1]
                        for m in _seq(u['all_members']):
                            if "'%s'" % m['n'] not in tagt:
                                bad('js_types union %s: tag %s missing from the .tag type %s' % (name, m['n'], tagt))
                declared = set(defs)
                if declared - builtin != exp_names:
                    bad('js_types declares %s, the API has %s' % (sorted(declared - builtin - exp_names), sorted(exp_names - declared)))
                for name, c in counts.items():
                    if c != 1:
                        bad('js_types declares %s %d times' % (name, c))
                for name, dfn in defs.items():
                    for p in dfn['props']:
                        for ref in re.findall(r'[A-Z]\w+', re.sub(r"'[^']*'", '', p[1])):
                            if ref not in declared and ref not in ('Array', 'Object', 'Timestamp', 'Error', 'UserMessage', 'String'):
                                bad('js_types %s.%s refers to undeclared type %s' % (name, p[0], ref))
            except Exception as e:
                bad('js_types failed: %s: %s' % (type(e).__name__, str(e)[:200]), 'js_types_fails')
            # ---------------------------------------------------------- tsd_types (single file and file per namespace)
            for args, single in ((['tmpl.d.ts', 'out.d.ts'], True), (['tmpl.d.ts'], False),
                                 (['tmpl.d.ts', 'out.d.ts', '--export-namespaces'], True)):
                try:
                    d = self.gen(specs, 'tsd_types', args, lambda o: open(os.path.join(o, 'tmpl.d.ts'), 'w').write('// h\n/*TYPES*/\n'))
                    dirs.append(d)
                    files = [f for f in sorted(os.listdir(d)) if f != 'tmpl.d.ts' and f.endswith('.ts')]
                    texts = [open(os.path.join(d, f)).read() for f in files]
                    self.check_dts('\n'.join(texts), surfaces, cx, bad, args)
                    if not single:
                        # one file per namespace: a qualified name needs an import of that namespace in the SAME file
                        for f, text in zip(files, texts):
                            own = set(re.findall(r"declare module '(\w+)'", text))
                            imported = set(re.findall(r"import \* as (\w+) from", text))
                            body = re.sub(r'/\*.*?\*/|//[^\n]*', '', text, flags=re.S)
                            for rns in set(re.findall(r'[:<|(,\s=](\w+)\.[A-Z]\w*', body)):
                                if rns in surfaces and rns not in own and rns not in imported:
                                    bad('tsd_types %s: %s names types of namespace %s without importing it' % (args[1:], f, rns),
                                        'tsd_missing_import')
                except Exception as e:
                    bad('tsd_types %s failed: %s: %s' % (args[1:], type(e).__name__, str(e)[:200]), 'tsd_types_fails')
            # ---------------------------------------------------------- tsd_client
            try:
                d = self.gen(specs, 'tsd_client', ['tmpl.d.ts', 'out.d.ts'],
                             lambda o: open(os.path.join(o, 'tmpl.d.ts'), 'w').write('// h\n/*ROUTES*/\n'))
                dirs.append(d)
                text = open(os.path.join(d, 'out.d.ts')).read()
                methods = re.findall(r'public (\w+)\((?:arg: ([^)]*))?\): Promise<(.*)>;', text)
                got = {m[0]: (m[1], m[2]) for m in methods}
                if len(methods) != len(got):
                    bad('tsd_client declares a method twice: %s' % sorted(m[0] for m in methods))
                exp = {}
                for s in surfaces.values():
                    for rt in _seq(s['routes']):
                        exp[route_fn(s['ns'], rt['n'], rt['ver'])] = (cx.ts(rt['arg_sym'], None) if rt['has_arg'] else '',
                                                                      cx.ts(rt['res_sym'], None))
                if set(got) != set(exp):
                    bad('tsd_client declares methods %s, the API has route versions %s' % (sorted(got), sorted(exp)))
                for k in set(got) & set(exp):
                    if got[k] != exp[k]:
                        bad('tsd_client %s has signature %s, expected %s' % (k, got[k], exp[k]))
            except Exception as e:
                bad('tsd_client failed: %s: %s' % (type(e).__name__, str(e)[:200]), 'tsd_client_fails')
        finally:
            for d in dirs:
                shutil.rmtree(d, ignore_errors=True)

    def check_dts(self, text, surfaces, cx, bad, args):
        parsed, counts = scan_dts(text)
        for key, c in counts.items():
            if c != 1:
                bad('tsd_types %s declares %s.%s %d times' % (args[1:], key[0], key[1], c))
        for s in surfaces.values():
            ns = s['ns']
            p = parsed.get(ns, {'interfaces': {}, 'types': {}})
            if not (_seq(s['structs']) or _seq(s['unions']) or _seq(s['aliases'])):
                continue
            for st in _seq(s['structs']):
                it = p['interfaces'].get(st['n'])
                if it is None:
                    bad('tsd_types %s lacks interface %s.%s' % (args[1:], ns, st['n']))
                    continue
                exp_base = None if not st['base'] else (st['base'] if cx.schema[st['base']]['ns'] == ns
                                                        else cx.schema[st['base']]['ns'] + '.' + st['base'])
                if it['extends'] != exp_base:
                    bad('tsd_types interface %s extends %s, spec parent is %s' % (st['n'], it['extends'], exp_base))
                got = {m[0]: m for m in it['members']}
                members = _seq(st['members'])
                if set(got) != {m['n'] for m in members}:
                    bad('tsd_types %s declares fields %s, the struct declares %s' % (st['n'], sorted(got), sorted(m['n'] for m in members)))
                for m in members:
                    if m['n'] not in got:
                        continue
                    _, opt, ty = got[m['n']]
                    if opt != (m['nullable'] or m['dflt']):
                        bad('tsd_types %s.%s is %s, the field is %s' % (st['n'], m['n'], 'optional' if opt else 'required',
                                                                      'nullable or defaulted' if (m['nullable'] or m['dflt']) else 'required'))
                    if ty != cx.ts(m['sym'], ns):
                        bad('tsd_types %s.%s has type %s, the Stone type maps to %s' % (st['n'], m['n'], ty, cx.ts(m['sym'], ns)))
            for u in _seq(s['unions']):
                if u['n'] not in p['types']:
                    bad('tsd_types %s lacks the union type %s.%s' % (args[1:], ns, u['n']))
                    continue
                rhs = [x.strip() for x in p['types'][u['n']].split('|')]
                for m in _seq(u['members']):
                    vi = u['n'] + pascal(m['n'])
                    if vi not in rhs:
                        bad('tsd_types union %s does not list variant %s' % (u['n'], vi))
                if u['base']:
                    pb = u['base'] if cx.schema[u['base']]['ns'] == ns else cx.schema[u['base']]['ns'] + '.' + u['base']
                    if pb not in rhs:
                        bad('tsd_types union %s does not include its parent %s (inherited tags)' % (u['n'], pb))
                for m in _seq(u['members']):
                    it = p['interfaces'].get(u['n'] + pascal(m['n']))
                    if it is None:
                        bad('tsd_types lacks variant interface %s%s' % (u['n'], pascal(m['n'])))
                        continue
                    got = {x[0]: x for x in it['members']}
                    if got.get('.tag', (None, None, ''))[2] != "'%s'" % m['n']:
                        bad("tsd_types variant %s%s has .tag %s" % (u['n'], pascal(m['n']), got.get('.tag')))
                    if not m['void']:
                        plain = m['sym']['k'] == 'struct' and not cx.subs_of(m['sym']['n']) if m['sym']['k'] != 'nullable' else \
                            (m['sym']['e']['k'] == 'struct' and not cx.subs_of(m['sym']['e']['n']))
                        if plain:
                            continue        # an ordinary struct member is flattened: the variant extends the struct
                        if m['n'] not in got:
                            bad('tsd_types variant %s%s lacks the value property %s' % (u['n'], pascal(m['n']), m['n']))
                        elif got[m['n']][1] != m['nullable']:
                            bad('tsd_types variant %s%s.%s is %s, the member is %snullable'
                                % (u['n'], pascal(m['n']), m['n'], 'optional' if got[m['n']][1] else 'required', '' if m['nullable'] else 'not '))
                        elif got[m['n']][2] != cx.ts(m['sym'], ns):
                            bad('tsd_types variant %s%s.%s has type %s, the Stone type maps to %s'
                                % (u['n'], pascal(m['n']), m['n'], got[m['n']][2], cx.ts(m['sym'], ns)), 'tsd_variant_type')
            for a in _seq(s['aliases']):
                if a['n'] not in p['types']:
                    bad('tsd_types %s lacks alias %s.%s' % (args[1:], ns, a['n']))
                elif p['types'][a['n']] != cx.ts(a['sym'], ns):
                    bad('tsd_types alias %s = %s, the Stone type maps to %s' % (a['n'], p['types'][a['n']], cx.ts(a['sym'], ns)))
            # no dangling names
            declared = set(p['interfaces']) | set(p['types'])
            for iname, it in p['interfaces'].items():
                for mname, _, ty in it['members']:
                    for ref in ts_names(ty):
                        if '.' in ref:
                            rns, rn = ref.split('.', 1)
                            ok = rn in parsed.get(rns, {}).get('interfaces', {}) or rn in parsed.get(rns, {}).get('types', {})
                        else:
                            ok = ref in declared
                        if not ok:
                            bad('tsd_types %s.%s.%s refers to %s which is neither declared nor imported' % (ns, iname, mname, ref))

"""Running every built-in backend (rows of DESIGN Appendix F) on example specs: used by C12 (determinism),
C18 (manifest fidelity), C16, C17."""
import importlib
import json
import os
import shutil
import sys
import tempfile

STONE_CFG = '''namespace stone_cfg

struct Route
    auth String = "user"
    host String = "api"
    style String = "rpc"
'''

SPEC_A = '''namespace files
    "File operations, see :type:`Metadata`."

import common
import users

alias Rev = String(min_length=9, pattern="[0-9a-f]+")
alias Paths = List(common.Path)

struct Metadata
    "Base of :type:`FileMetadata` and :type:`FolderMetadata`; see :route:`get_metadata:2`."
    union
        file FileMetadata
        folder FolderMetadata
    name String
        "The last component of the path. Compare :field:`FileMetadata.size`."
    path_lower common.Path?
    owner users.Account?

struct FileMetadata extends Metadata
    size UInt64
        @users.InternalOnly
    rev Rev
    modified common.Date
    tags Map(String, List(String))?
    mode WriteMode = add
    example default
        name = "a.txt"
        size = 10
        rev = "0123456789abcdef"
        modified = "2015-05-12T15:50:38Z"

struct FolderMetadata extends Metadata
    shared Boolean = false
    example default
        name = "dir"

union WriteMode
    "How to write; :val:`true` or :link:`docs https://example.com/x`."
    add
    overwrite
    update Rev
        "Overwrite if the rev matches."

union_closed LookupError
    not_found
    malformed_path String?
    other_error common.BaseError

struct GetMetadataArg
    path common.Path
    include_deleted Boolean = false
    limit UInt32(min_value=1, max_value=1000) = 100
    ratio Float64 = 0.5
    hint String?

struct ListResult
    entries List(Metadata)
    cursor String
    has_more Boolean

route get_metadata(GetMetadataArg, Metadata, LookupError) deprecated by get_metadata:2
    "Old way."
    attrs
        auth = "user"

route get_metadata:2(GetMetadataArg, Metadata, LookupError)
    "Returns :type:`Metadata` for a path."
    attrs
        host = "api"

route list_folder(GetMetadataArg, ListResult, Void)

route upload(FileMetadata, Void, LookupError)
    attrs
        style = "upload"
        host = "content"

route download(GetMetadataArg, FileMetadata, LookupError) deprecated
    attrs
        style = "download"

route noop(Void, Void, Void)
'''

SPEC_B = '''namespace common

alias Path = String(pattern="/.*")
alias Date = Timestamp("%Y-%m-%dT%H:%M:%SZ")

union BaseError
    too_many
    reason String

struct Empty
    "No fields."
'''

# defaulted timestamps (the generated Python module needs its own import for them).  The Swift and Objective-C
# backends do not complete on such a field (known finding of C17), so this file joins the spec sets of the other rows only.
SPEC_H = '''namespace stamps

import common

struct Stamp
    "A defaulted timestamp."
    at common.Date = "2015-05-12T15:50:38Z"
    until common.Date = "2016-01-01T00:00:00Z"
'''

# four namespaces for the Python stub rows: ztop imports only zmid, whose aliases stand for lists of types of za and zb, so
# the stub of ztop needs TWO imports of namespaces its spec does not import
SPEC_I = [('za.stone', 'namespace za\n\nstruct A1\n    x Int32\n'),
          ('zb.stone', 'namespace zb\n\nstruct B1\n    y Int32\n'),
          ('zg.stone', 'namespace zg\n\nstruct G1\n    z Int32\n'),
          ('zmid.stone', 'namespace zmid\n\nimport za\nimport zb\nimport zg\n\nalias As = List(za.A1)\nalias Bs = List(zb.B1)\n'
                         'alias Gs = Map(String, zg.G1)\n'),
          ('ztop.stone', 'namespace ztop\n\nimport zmid\n\nstruct Top\n    a zmid.As\n    b zmid.Bs\n    g zmid.Gs?\n')]

SPEC_C = '''namespace users

annotation InternalOnly = Omitted("internal")
annotation AlphaOnly = Omitted("alpha")
annotation Hashed = RedactedHash()
annotation Old = Deprecated()

struct Account
    account_id String(min_length=40, max_length=40)
    email String
        @Hashed
    secret String?
        @InternalOnly
    beta String?
        @AlphaOnly
    legacy Int64?
        @Old

union Role
    admin
    member
    guest Account?
        @AlphaOnly
    root
        @InternalOnly

route get_account(Account, Role, Void)
'''

SPEC_D = '''namespace routes_only

import users

route ping(Void, Void, Void)

route whoami(Void, users.Account, Void)
'''

SPEC_E = '''namespace perms

import users

annotation_type Noteworthy
    "Describes a field with noteworthy information"
    importance String = "low"

annotation_type Audited
    level Int32 = 1

annotation KindaNoteworthy = Noteworthy()
annotation MediumNoteworthy = Noteworthy("med")
annotation ReallyNoteworthy = Noteworthy(importance="high")
annotation Audit2 = Audited(level=2)
annotation BetaOnly = Omitted("beta")
annotation GammaOnly = Omitted("gamma")

alias ImportantString = String
    @ReallyNoteworthy

alias VeryImportantString = ImportantString
    @MediumNoteworthy

alias MostImportantString = VeryImportantString
    @KindaNoteworthy
    @Audit2

struct Base
    a String
        @users.InternalOnly
    b String?
        @users.AlphaOnly
    c Int32 = 3
        @BetaOnly
    d String?
        @GammaOnly
    e MostImportantString

struct Child extends Base
    f List(VeryImportantString)
    g Map(String, MostImportantString)?

struct GrandChild extends Child
    h String?
        @users.InternalOnly
        @KindaNoteworthy

union Pick
    one Base
        @BetaOnly
    two Child
        @GammaOnly
    three
        @users.AlphaOnly
    four MostImportantString
        @users.InternalOnly

route choose(Child, Pick, Void)
'''

# spec set 3: a route whitelist over types that reference each other in cycles and carry custom annotations
SPEC_F = '''namespace tree

import perms

struct Folder
    name String
        @perms.KindaNoteworthy
    entries List(Entry)
    owner Owner?

struct Entry
    parent Folder?
    shares List(Share)
    title perms.ImportantString?

struct Owner
    email String
        @perms.ReallyNoteworthy
    shares List(Share)

struct Share
    owner Owner
    note perms.VeryImportantString?
    level Int32 = 1
        @perms.Audit2

struct Unused
    x Int32
'''

SPEC_G = '''namespace aroutes

import tree

route list_folder(tree.Folder, tree.Entry, Void)

route get_owner(tree.Owner, tree.Share, Void)

route share(tree.Share, Void, Void)

route entry(tree.Entry, tree.Folder, Void)

route unused(tree.Unused, Void, Void)
'''
WHITELIST_3 = {'route_whitelist': {'aroutes': ['list_folder', 'get_owner', 'share', 'entry']}, 'datatype_whitelist': {}}


def whitelist_for(k=0):
    return WHITELIST_3 if k == 2 else None


def spec_set(k=0, backend=None):
    specs = [('stone_cfg.stone', STONE_CFG), ('files.stone', SPEC_A), ('common.stone', SPEC_B), ('users.stone', SPEC_C)]
    if backend is not None and not backend.startswith(('swift', 'obj_c')):
        specs.append(('stamps.stone', SPEC_H))
    if backend is not None and backend.startswith('python_type'):
        specs += SPEC_I
    if k >= 1:
        specs.append(('routes_only.stone', SPEC_D))
        # sets and dicts on the way to the output: inherited omitted callers, several custom annotations of one
        # annotation type through an alias chain, annotated union members
        specs.append(('perms.stone', SPEC_E))
    if k == 2:
        specs += [('aroutes.stone', SPEC_G), ('tree.stone', SPEC_F)]
    return specs


SWIFT_STYLES = ('{"rpc":"RpcRequest","upload":"UploadRequest","download_file":"DownloadRequestFile",'
                '"download_memory":"DownloadRequestMemory"}')
SWIFT_CLIENT_ARGS = ('{"upload":[["upload",[["input","Data","NSData","the body"]]]],"download":[["download_file",'
                     '[["destination","URL","NSURL","dest"]]],["download_memory",[]]]}')
SWIFT_CLIENT = ['-m', 'Mod', '-c', 'Cls', '-t', 'Tr', '-z', SWIFT_STYLES, '-y', SWIFT_CLIENT_ARGS]


def _tsd_template(outdir, name, marker):
    os.makedirs(outdir, exist_ok=True)
    with open(os.path.join(outdir, name), 'w') as f:
        f.write('// header\n%s\n// footer\n' % marker)


EXTRA_ARGS = ['-e', '{"match": ["style", "upload"], "arg_name": "contents", "arg_type": "Object", "arg_docstring": "The body."}',
              '-e', '{"match": ["host", "content"], "arg_name": "domain", "arg_type": "string"}',
              '-e', '{"match": ["auth", "user"], "arg_name": "select_user", "arg_type": "string"}']

ROWS = [
    ('python_types', ['-p', 'pk'], None),
    ('python_types', ['-p', 'pk', '-r', '{ns}.{route}'], None),
    ('python_type_stubs', ['-p', 'pk'], None),
    ('python_client', ['-m', 'cl', '-c', 'Cl', '-t', 'pk'], None),
    ('python_client', ['-m', 'cl', '-c', 'Cl', '-t', 'pk', '-w', 'user', '-a', 'style'], None),
    ('js_client', ['routes.js'], None),
    ('js_client', ['routes.js', '-c', 'Cls', '--wrap-response-in', 'R', '--wrap-error-in', 'E', '-a', 'style'], None),
    ('js_types', ['types.js'], None),
    ('tsd_client', ['tmpl.d.ts', 'out.d.ts'], lambda d: _tsd_template(d, 'tmpl.d.ts', '/*ROUTES*/')),
    ('tsd_types', ['tmpl.d.ts', 'out.d.ts'], lambda d: _tsd_template(d, 'tmpl.d.ts', '/*TYPES*/')),
    ('tsd_types', ['tmpl.d.ts'], lambda d: _tsd_template(d, 'tmpl.d.ts', '/*TYPES*/')),
    # several --extra-arg options that match different attributes of ONE route (upload: style, host, auth)
    ('tsd_types', ['tmpl.d.ts', 'out.d.ts'] + EXTRA_ARGS, lambda d: _tsd_template(d, 'tmpl.d.ts', '/*TYPES*/')),
    ('js_types', ['types.js'] + EXTRA_ARGS, None),
    ('swift_types', [], None),
    ('swift_types', ['--objc'], None),
    ('swift_client', SWIFT_CLIENT, None),
    ('swift_client', SWIFT_CLIENT + ['--objc'], None),
    ('obj_c_types', [], None),
    ('obj_c_client', SWIFT_CLIENT, None),
]


def run_row(row, specs, outdir, manifest=False, attrs_all=True, whitelist=None):
    """Compile specs and run one backend row into outdir.  Returns (files: {relpath: bytes}, manifest list or None)."""
    from stone.frontend.frontend import specs_to_ir
    from stone.compiler import Compiler
    name, args, prep = row
    api = specs_to_ir(list(specs), route_whitelist_filter=whitelist)
    if not attrs_all:
        for ns in api.namespaces.values():
            for r in ns.routes:
                r.attrs.clear()
    pre = set()
    if prep:
        prep(outdir)
        pre = {f for f in os.listdir(outdir)}
    mod = importlib.import_module('stone.backends.' + name)
    c = Compiler(api, mod, list(args), outdir, output_manifest=manifest)
    c.build()
    files = {}
    for d, _, fs in os.walk(outdir):
        for f in fs:
            p = os.path.join(d, f)
            rel = os.path.relpath(p, outdir)
            if rel in pre:
                continue
            with open(p, 'rb') as fh:
                files[rel] = fh.read()
    return files, (c.output_manifest() if manifest else None)


def manifest_vs_real(seed, tier):
    """C18: for every built-in backend row, a manifest run reports exactly the files a real run creates and creates none."""
    agg = {'judged': 0, 'violations': [], 'samples': [], 'skipped': {}, 'kinds': {}}
    for k in (0, 1):
        specs = None   # per row below (row-dependent spec files)
        for row in ROWS:
            specs = spec_set(k, row[0])
            tmp = tempfile.mkdtemp(prefix='verif-man-')
            try:
                real_dir, man_dir = os.path.join(tmp, 'real'), os.path.join(tmp, 'man')
                try:
                    real, _ = run_row(row, specs, real_dir)
                    mfiles, man = run_row(row, specs, man_dir, manifest=True)
                except Exception as e:
                    agg['violations'].append({'finding': 'backend_fails_%s_%s' % (row[0], type(e).__name__), 'class': 'backend_fails_%s' % row[0],
                                              'what': 'backend %s %s failed: %s: %s' % (row[0], row[1][:3], type(e).__name__, str(e)[-300:]),
                                              'vector': {'row': [row[0], row[1]], 'spec_set': k}, 'observed': None})
                    continue
                agg['judged'] += 1
                agg['kinds']['backend_rows'] = agg['kinds'].get('backend_rows', 0) + 1
                if len(agg['samples']) < 2:
                    agg['samples'].append({'backend': row[0], 'args': row[1][:4], 'files': sorted(real)[:8]})
                if mfiles:
                    agg['violations'].append({'finding': None, 'class': 'manifest_run_writes',
                                              'what': 'manifest run of %s created files %s' % (row[0], sorted(mfiles)[:5]),
                                              'vector': {'row': [row[0], row[1]], 'spec_set': k}, 'observed': None})
                if sorted(man) != sorted(real):
                    agg['violations'].append({'finding': None, 'class': 'manifest_differs',
                                              'what': 'manifest of %s %s differs from the real run: only in manifest %s, only on disk %s'
                                                      % (row[0], row[1][:3], sorted(set(man) - set(real))[:5], sorted(set(real) - set(man))[:5]),
                                              'vector': {'row': [row[0], row[1]], 'spec_set': k}, 'observed': None})
            finally:
                shutil.rmtree(tmp, ignore_errors=True)
    for v in agg['violations']:
        agg['kinds']['viol:' + v['class']] = agg['kinds'].get('viol:' + v['class'], 0) + 1
    return agg


if __name__ == '__main__':
    sys.path.insert(0, os.path.dirname(os.path.abspath(__file__)))
    r = manifest_vs_real(0, 'quick')
    print(r['judged'], r['kinds'])
    for v in r['violations']:
        print(v['what'][:400])

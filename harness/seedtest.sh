#!/bin/sh
# usage: seedtest.sh <patch.diff> <ID>...   applies the patch to /repo, runs the quick checks, restores /repo
patch="$1"; shift
cd /repo || exit 2
git diff --quiet || { echo "/repo not clean"; exit 2; }
git apply "$patch" || { echo "patch does not apply"; exit 2; }
for id in "$@"; do
  cd /verif && ./check "$id" --tier quick > /tmp/seed_$id.out 2>&1
  echo "$id exit=$? $(grep -c '^VIOLATION' /tmp/seed_$id.out) violation lines; first: $(grep -v '^VIOLATION' /tmp/seed_$id.out | grep -v KNOWN | head -2 | cut -c1-300)"
done
cd /repo && git checkout -- . && git status --short | head -3

"""C20 (whitelist), C19 (cli), C18 (emit) checks."""
import json

from runner import Report, run_shards, merge, seed


def _simple_replay(prop, judge_cls, replay):
    with open(replay) as f:
        payload = json.load(f)
    if 'vector' not in payload or 'vector' not in payload['vector']:
        print('replay file has no vector (model-level violation): rerun the check')
        return 2
    rep = Report(prop, 'quick')
    j = judge_cls({})
    j.on_vec('VEC', payload['vector']['vector'])
    j.finish()
    rep.states = rep.transitions = 1
    rep.add_judged({'judged': j.judged, 'violations': j.violations, 'samples': j.samples,
                    'skipped': j.skipped, 'kinds': j.kinds})
    return rep.finish()


def check_c20(tier, replay=None):
    from wlcheck import WhitelistJudge
    if replay:
        return _simple_replay('C20', WhitelistJudge, replay)
    rep = Report('C20', tier)
    nsh = 16
    shards = list(range(nsh))
    lo, hi = (2, 12) if tier == 'quick' else (4, 10)
    res = run_shards('StoneWhitelist',
                     lambda s: dict(spec='Spec', constants={'Shard': s, 'NShards': nsh, 'EmitVectors': True, 'Lo': lo, 'Hi': hi},
                                    invariants=['ContainsSeeds', 'Closed', 'Minimal', 'OpAgrees'], constraints=['Emit']),
                     shards, 'wlcheck.WhitelistJudge', {}, tlc_kwargs={'timeout': 6000})
    agg = merge(res)
    rep.add_tlc('StoneWhitelist', agg, {'edges': 14, 'whitelists': 39, 'edge_sets': 'at most %d or at least %d of 14 edges on' % (lo, hi)})
    rep.add_judged(agg)
    rep.exhaustive = False
    rep.coverage_extra['rule'] = ('edge sets with few or almost all of 14 switchable dependency edges (field type direct / List / Map+nullable / alias; parent; '
                                  'enumerated subtypes; tag-default union; :type: on a type, :field: on a field, :route: on a type and on a '
                                  'route, namespace doc; route error type; cross-namespace) x 39 whitelists (route subsets incl. *, data type '
                                  'subsets, both namespaces): retained types and routes compared with StoneWhitelist!Closure; dangling '
                                  'references searched on the real object graph; python_types output of the filtered Api imported')
    rep.assumptions = ['TLC 1.8; harness/wlcheck.py render_spec']
    return rep.finish()

"""C20 (whitelist), C19 (cli), C18 (emit) checks."""
import json

from runner import Report, run_shards, merge, seed


def _simple_replay(prop, judge_cls, replay):
    with open(replay) as f:
        payload = json.load(f)
    if 'vector' not in payload or 'vector' not in payload['vector']:
        print('replay file has no vector (model-level violation): rerun the check')
        return 2
    rep = Report(prop, 'quick')
    j = judge_cls({})
    j.on_vec('VEC', payload['vector']['vector'])
    j.finish()
    rep.states = rep.transitions = 1
    rep.add_judged({'judged': j.judged, 'violations': j.violations, 'samples': j.samples,
                    'skipped': j.skipped, 'kinds': j.kinds})
    return rep.finish()


def check_c20(tier, replay=None):
    from wlcheck import WhitelistJudge
    if replay:
        return _simple_replay('C20', WhitelistJudge, replay)
    rep = Report('C20', tier)
    nsh = 16
    shards = list(range(nsh))
    lo, hi = (2, 15) if tier == 'quick' else (4, 13)
    res = run_shards('StoneWhitelist',
                     lambda s: dict(spec='Spec', constants={'Shard': s, 'NShards': nsh, 'EmitVectors': True, 'Lo': lo, 'Hi': hi},
                                    invariants=['ContainsSeeds', 'Closed', 'Minimal', 'OpAgrees'], constraints=['Emit']),
                     shards, 'wlcheck.WhitelistJudge', {}, tlc_kwargs={'timeout': 6000})
    agg = merge(res)
    rep.add_tlc('StoneWhitelist', agg, {'edges': 17, 'whitelists': 39, 'edge_sets': 'at most %d or at least %d of 17 switches on' % (lo, hi)})
    rep.add_judged(agg)
    rep.exhaustive = False
    rep.coverage_extra['rule'] = ('edge sets with few or almost all of 16 switches (15 dependency edges: field type direct / List / Map+nullable / alias; parent; '
                                  'enumerated subtypes; tag-default union; :type: on a type and on an alias, :field: on a field, :route: on a type and on a '
                                  'route, namespace doc; route error type; cross-namespace; plus route signatures naming their type inside Map/List/nullable) x 39 whitelists (route subsets incl. *, data type '
                                  'subsets, both namespaces): retained types and routes compared with StoneWhitelist!Closure; dangling '
                                  'references searched on the real object graph; python_types output of the filtered Api imported')
    rep.assumptions = ['TLC 1.8; harness/wlcheck.py render_spec']
    return rep.finish()


CLI_INVS = ['Precedence', 'OuterParensNeutral', 'AbsentIsNull', 'ErrorsNotIgnored', 'NamespacesKeepOnlySelected']


def check_c19(tier, replay=None):
    from clicheck import CliJudge
    if replay:
        return _simple_replay('C19', CliJudge, replay)
    rep = Report('C19', tier)
    ma = 3 if tier == 'quick' else 4
    jobs = [('filter', s) for s in range(12)] + [('prune', 0)]
    res = run_shards('StoneCli',
                     lambda j: dict(spec='Spec', constants={'Shard': j[1], 'NShards': 12 if j[0] == 'filter' else 1,
                                                            'EmitVectors': True, 'MaxAtoms': ma if j[0] == 'filter' else 0,
                                                            'Mode': '"%s"' % j[0]},
                                    invariants=CLI_INVS, constraints=['Emit', 'InShard']),
                     jobs, 'clicheck.CliJudge', {}, tlc_kwargs={'timeout': 6000})
    agg = merge(res)
    rep.add_tlc('StoneCli', agg, {'MaxAtoms': ma, 'atoms': 12, 'routes': 8})
    rep.add_judged(agg)
    rep.exhaustive = True
    rep.coverage_extra['rule'] = ('every filter string atom (and|or atom)* of <= %d atoms (12 atoms over 5 attributes incl. an undeclared one and '
                                  'literals of every kind; 4 core atoms beyond two) with one optional parenthesised sub-range, plus every '
                                  'single-token deletion (malformed); every subset of known/unknown namespaces for -w and -b, every subset of '
                                  'known/unknown attributes and :all for -a around 3 fixed filters; each run through stone.cli.main with a '
                                  'recording backend on a 4-namespace spec with 8 routes covering all value combinations' % ma)
    rep.assumptions = ['TLC 1.8; harness/clicheck.py render_expr and the fixed spec mirrored in StoneCli!RouteList']
    return rep.finish()


def check_c18(tier, replay=None):
    from emitcheck import EmitJudge
    if replay:
        return _simple_replay('C18', EmitJudge, replay)
    rep = Report('C18', tier)
    invs = ['EscapeFormatIdentity', 'Verbatim', 'Contained', 'ManifestFidelity',
            'WrapKeepsText', 'WrapKeepsWords', 'WrapPrefixed', 'WrapWidth', 'WrapGreedy']
    mo = 3 if tier == 'quick' else 4
    jobs = [('paths', 0, 1, 1), ('manifest', 0, 1, 3), ('wrap', 0, 1, 4)] + [('emit', s, 14, mo) for s in range(14)]
    res = run_shards('StoneEmit',
                     lambda j: dict(spec='Spec', constants={'Shard': j[1], 'NShards': j[2], 'EmitVectors': True, 'MaxOps': j[3],
                                                            'Mode': '"%s"' % j[0]},
                                    invariants=invs, constraints=['Emit', 'InShard']),
                     jobs, 'emitcheck.EmitJudge', {}, tlc_kwargs={'timeout': 6000})
    for mode in ('paths', 'manifest', 'wrap', 'emit'):
        agg = merge([r for r, j in zip(res, jobs) if j[0] == mode])
        rep.add_tlc('StoneEmit/' + mode, agg, {'Mode': mode, 'MaxOps': {'paths': 1, 'manifest': 3, 'wrap': 4, 'emit': mo}[mode]})
        rep.add_judged(agg)
    # every built-in backend: manifest run versus real run on the example spec set
    from backendruns import manifest_vs_real
    agg = manifest_vs_real(seed(), tier)
    rep.add_judged(agg)
    rep.exhaustive = True
    rep.coverage_extra['rule'] = ('all 2064 paths (1-3 segments of {name, name, ., .., empty, unicode}, relative / absolute outside / absolute '
                                  'inside / absolute beside the root, with and without trailing slash) x 3 entry points, file tree of the '
                                  'parent directory compared before/after; every emit script of <= %d operations over 30 operations (emit / '
                                  'emit_raw of 13 texts with braces, format-like sequences, backslash, non-ASCII; indent and block contexts; '
                                  'named and positional placeholders; generate_multiline_list of 0-3 items compact or not) against the '
                                  'reference pretty-printer; emit_wrapped_text of 7 word sequences (long, hyphenated, braces) x prefix x '
                                  'initial/subsequent prefix x width 6/10 x break_long_words x break_on_hyphens under 0-2 indent/block contexts; all open/copy/swift-write scripts of <= 3 operations in real and manifest mode; '
                                  'every built-in backend in real and manifest mode' % mo)
    rep.assumptions = ['TLC 1.8; harness/emitcheck.py (rendering of characters and path segments); os.walk snapshots of the sandbox directory']
    return rep.finish()


def check_c10(tier, replay=None):
    from defcheck import DefaultsJudge
    if replay:
        return _simple_replay('C10', DefaultsJudge, replay)
    rep = Report('C10', tier)
    jobs = ['defaults', 'examples']
    res = run_shards('StoneDefaultsMC',
                     lambda m: dict(spec='Spec', constants={'Shard': 0, 'NShards': 1, 'EmitVectors': True, 'Mode': '"%s"' % m},
                                    invariants=['DefaultsValid', 'ExamplesValid'], constraints=['Emit']),
                     jobs, 'defcheck.DefaultsJudge', {}, tlc_kwargs={'timeout': 6000})
    for m, r in zip(jobs, res):
        agg = merge([r])
        rep.add_tlc('StoneDefaultsMC/' + m, agg, {'Mode': m})
        rep.add_judged(agg)
    rep.exhaustive = True
    rep.coverage_extra['rule'] = ('22 field types (bounded and unbounded Int32/UInt64/Int64, Float32/Float64, String with length and pattern, '
                                  'Boolean, unions incl. child union, alias of union and of string, Timestamp, nullable, List, Map, struct, Bytes) x 46 '
                                  'literals (integers and floats at and beyond the bounds, strings of length 0-4 matching the pattern fully / as a '
                                  'prefix only / not at all, booleans, tags incl. inherited, typed and unknown ones, null, timestamp text): verdict '
                                  'of the compiler, value read from the unset field, acceptance by the generated class; 340 (type shape, example '
                                  'label) pairs over 10 slot types: computed example = denoted document, strict decode = denoted value, re-encode')
    rep.assumptions = ['TLC 1.8; harness/defcheck.py literal rendering; StoneRuntime!Accepts as the runtime rule (checked by C08)']
    return rep.finish()

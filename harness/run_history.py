"""Executes one process history for C12 (run with PYTHONHASHSEED set by the caller).
argv[1]: JSON list of histories [{'hid':..,'seed':..,'steps':[{'row','spec','dir'}]}]; prints one JSON event per run."""
import hashlib
import json
import os
import shutil
import sys
import tempfile

sys.path.insert(0, os.path.dirname(os.path.abspath(__file__)))
import backendruns  # noqa: E402


def digest(files):
    h = hashlib.sha256()
    for rel in sorted(files):
        h.update(rel.encode())
        h.update(b'\0')
        h.update(files[rel])
        h.update(b'\0')
    return h.hexdigest()


def main():
    hist = json.loads(sys.argv[1])
    tmp = tempfile.mkdtemp(prefix='verif-run-')
    try:
        for i, st in enumerate(hist['steps'], 1):
            out = os.path.join(tmp, '%s_%d' % (st['dir'], i))
            try:
                files, _ = backendruns.run_row(backendruns.ROWS[st['row'] - 1], backendruns.spec_set(st['spec'] - 1, backendruns.ROWS[st['row'] - 1][0]), out,
                                                  whitelist=backendruns.whitelist_for(st['spec'] - 1))
                dg = digest(files)
            except Exception as e:
                dg = 'EXC:%s' % type(e).__name__
            print(json.dumps({'hid': hist['hid'], 'seed': hist['seed'], 'step': i, 'row': st['row'], 'spec': st['spec'],
                              'dir': st['dir'], 'digest': dg}))
    finally:
        shutil.rmtree(tmp, ignore_errors=True)


if __name__ == '__main__':
    main()

"""C17 judge: StoneLoadMC models -> swift_types, swift_client, obj_c_types, obj_c_client output.

No Swift or Objective-C compiler exists in the sandbox.  The judge therefore decides what small scanners can decide
without one: every file is lexed (strings, comments, brackets), declarations are collected per scope, a scope never declares
the same name/signature twice, every model element is declared under the backend's naming scheme, and every qualified
user-type name that is used resolves to a declaration.
"""
import importlib
import json
import os
import re
import shutil
import tempfile

from runner import Judge
from wire import norm_abs
from loadcheck import render_model, _seq
from jscheck import camel, pascal
import backendruns

OBJC_CLIENT = ['-m', 'Mod', '-c', 'Cls', '-t', 'Tr', '-w', 'user',
               '-z', json.dumps({"rpc": "DBRpcTask", "upload": "DBUploadTask", "download_file": "DBDownloadUrlTask",
                                 "download_memory": "DBDownloadDataTask"}),
               '-y', json.dumps({"upload": [["upload", ["", [["input", "input", "NSData *", "the body"]]]]],
                                 "download": [["download_file", ["Url", [["destination", "destination", "NSURL *", "dest"]]]],
                                              ["download_memory", ["Data", []]]]})]
ROWS = [('swift_types', 'swift_types', []), ('swift_types_objc', 'swift_types', ['--objc']),
        ('swift_client', 'swift_client', backendruns.SWIFT_CLIENT),
        ('swift_client_objc', 'swift_client', backendruns.SWIFT_CLIENT + ['--objc']),
        ('obj_c_types', 'obj_c_types', []), ('obj_c_client', 'obj_c_client', OBJC_CLIENT)]
OBJC_EXTERNAL = {'DBRoute', 'DBNilObject', 'DBRpcTask', 'DBUploadTask', 'DBDownloadUrlTask', 'DBDownloadDataTask', 'Tr', 'Cls',
                 'BOOL', 'SEL', 'Class'}
STYLE_FUNCS = {'rpc': 1, 'upload': 1, 'download': 2}


def blank(text, objc=False):
    """Return (text with string contents and comments replaced by spaces, problem or None)."""
    out = list(text)
    i, n = 0, len(text)

    def wipe(a, b):
        for k in range(a, b):
            if out[k] != '\n':
                out[k] = ' '
    line = 1
    while i < n:
        c = text[i]
        if c == '\n':
            line += 1
            i += 1
        elif text.startswith('//', i):
            j = text.find('\n', i)
            j = n if j < 0 else j
            wipe(i, j)
            i = j
        elif text.startswith('/*', i):
            j = text.find('*/', i + 2)
            if j < 0:
                return ''.join(out), 'unterminated block comment starting at line %d' % line
            line += text.count('\n', i, j)
            wipe(i, j + 2)
            i = j + 2
        elif c == '"':
            if text.startswith('"""', i):
                j = text.find('"""', i + 3)
                if j < 0:
                    return ''.join(out), 'unterminated multi-line string at line %d' % line
                line += text.count('\n', i, j)
                wipe(i + 3, j)
                i = j + 3
                continue
            j, depth = i + 1, 0
            while j < n:
                if text[j] == '\\':
                    if not objc and text.startswith('\\(', j):
                        depth += 1
                    j += 2
                    continue
                if depth and text[j] == '(':
                    depth += 1
                elif depth and text[j] == ')':
                    depth -= 1
                elif text[j] == '"' and depth == 0:
                    break
                elif text[j] == '\n':
                    return ''.join(out), 'unterminated string at line %d' % line
                j += 1
            if j >= n:
                return ''.join(out), 'unterminated string at line %d' % line
            wipe(i + 1, j)
            i = j + 1
        elif c == "'" and objc:
            j = text.find("'", i + 3 if text.startswith("'\\", i) else i + 1)
            if j < 0 or j - i > 4:
                return ''.join(out), 'unterminated character literal at line %d' % line
            wipe(i + 1, j)
            i = j + 1
        else:
            i += 1
    return ''.join(out), None


def balance(code):
    stack, line = [], 1
    pairs = {')': '(', ']': '[', '}': '{'}
    for c in code:
        if c == '\n':
            line += 1
        elif c in '([{':
            stack.append((c, line))
        elif c in ')]}':
            if not stack or stack[-1][0] != pairs[c]:
                return 'unbalanced %r at line %d' % (c, line)
            stack.pop()
    if stack:
        return 'unclosed %r opened at line %d' % stack[-1]
    return None


SW_TOK = re.compile(r'[{}]|\b(?:class|enum|struct|protocol|extension|func|let|var|case|init)\b')
TYPE_KW = ('class', 'enum', 'struct', 'protocol')


class Scope:
    def __init__(self, kind, name):
        self.kind, self.name = kind, name
        self.decls = {}     # key -> count
        self.types = {}     # name -> Scope


def scan_swift(code):
    """Collect declarations per scope from comment/string-blanked Swift text.  Returns (top scope, duplicates)."""
    top = Scope('top', '')
    stack = [top]
    pending = None
    dups = []

    def rec(scope, key):
        scope.decls[key] = scope.decls.get(key, 0) + 1
        if scope.decls[key] == 2:
            dups.append((scope.name, key))
    for m in SW_TOK.finditer(code):
        t = m.group(0)
        cur = stack[-1]
        if t == '{':
            stack.append(pending or Scope('code', cur.name))
            pending = None
            continue
        if t == '}':
            if len(stack) > 1:
                stack.pop()
            pending = None
            continue
        if cur.kind == 'code' or pending is not None and pending.kind != 'code':
            continue
        if m.start() and code[m.start() - 1] in '.`':
            continue
        rest = code[m.end():m.end() + 400]
        if t in TYPE_KW:
            nm = re.match(r'\s+(\w+)', rest)
            if not nm or nm.group(1) in ('func', 'var', 'let'):
                continue
            name = nm.group(1)
            rec(cur, ('type', name))
            sc = Scope('enum' if t == 'enum' else 'type', (cur.name + '.' if cur.name else '') + name)
            cur.types.setdefault(name, sc)
            pending = sc
        elif t == 'extension':
            nm = re.match(r'\s+([\w.]+)', rest)
            pending = Scope('type', 'extension ' + (nm.group(1) if nm else '?'))
        elif t in ('func', 'init'):
            j = code.find('{', m.end())
            nl = code.find('\n', m.end())
            if t == 'init' and not re.match(r'\s*[?!]?\s*\(', rest):
                continue
            hdr_end = j if j >= 0 else nl
            # protocol requirement without body: stop at end of line when the brace is not on a continuation
            header = code[code.rfind('\n', 0, m.start()) + 1:hdr_end]
            if header.count('(') != header.count(')'):
                header = code[code.rfind('\n', 0, m.start()) + 1:j]
            rec(cur, ('func', ' '.join(header.split())))
            pending = Scope('code', cur.name)
        elif t in ('let', 'var'):
            nm = re.match(r'\s+(\w+)', rest)
            if nm:
                rec(cur, ('prop', nm.group(1)))
            # a computed property body is code
            line_end = code.find('\n', m.end())
            if '{' in code[m.end():line_end if line_end >= 0 else len(code)]:
                pending = Scope('code', cur.name)
        elif t == 'case' and cur.kind == 'enum':
            line_end = code.find('\n', m.end())
            body = code[m.end():line_end if line_end >= 0 else len(code)]
            depth, part, parts = 0, '', []
            for ch in body:
                if ch == '(':
                    depth += 1
                elif ch == ')':
                    depth -= 1
                if ch == ',' and depth == 0:
                    parts.append(part)
                    part = ''
                else:
                    part += ch
            parts.append(part)
            for p in parts:
                nm = re.match(r'\s*(\w+)', p)
                if nm:
                    rec(cur, ('case', nm.group(1)))
    return top, dups


def scan_objc(code, is_header):
    """Interfaces/implementations with property names and method selectors.  Returns (decl dict, dups, names)."""
    dups, names = [], set()
    blocks = {}
    for m in re.finditer(r'@(interface|implementation|protocol)\s+(\w+)\b(?!\s*[;,])\s*(\([^)]*\))?([^\n]*)\n(.*?)\n@end', code, re.S):
        kind, name, cat, _, body = m.groups()
        if kind == 'protocol' and body is None:
            continue
        key = (kind, name, (cat or '').replace(' ', ''))
        if key in blocks:
            dups.append(('file', key))
        blocks[key] = body
        names.add(name)
        seen = {}
        for pm in re.finditer(r'@property\s*(?:\([^)]*\))?\s*[^;]*?(\w+)\s*;', body):
            k = ('prop', pm.group(1))
            seen[k] = seen.get(k, 0) + 1
        # strip method bodies in implementations
        flat, depth = [], 0
        for ch in body:
            if ch == '{':
                depth += 1
            elif ch == '}':
                depth -= 1
            elif depth == 0:
                flat.append(ch)
        for mm in re.finditer(r'^([-+])\s*\([^)]*\)\s*([^;{]*)', ''.join(flat), re.M):
            sel = mm.group(2)
            sel = re.sub(r'\([^()]*(\([^()]*\)[^()]*)*\)', '', sel)          # drop parameter types
            parts = re.findall(r'(\w+)\s*:', sel)
            selector = ':'.join(parts) + ':' if parts else (re.match(r'\s*(\w+)', sel) or [None, '?'])[1]
            k = ('method', mm.group(1), selector)
            seen[k] = seen.get(k, 0) + 1
        for k, c in seen.items():
            if c > 1:
                dups.append((name, k))
        blocks[key] = (body, seen)
    for em in re.finditer(r'typedef\s+NS_(?:CLOSED_)?ENUM\s*\(\s*\w+\s*,\s*(\w+)\s*\)\s*\{(.*?)\}', code, re.S):
        names.add(em.group(1))
        for c in re.findall(r'^\s*(\w+)\s*(?:=[^,]*)?,?\s*$', em.group(2), re.M):
            names.add(c)
    for sm in re.finditer(r'^static\s+\w+\s*\*\s*(\w+)\s*;', code, re.M):
        names.add(sm.group(1))
    return blocks, dups, names


class SwiftJudge(Judge):
    def on_vec(self, tag, obj):
        if tag != 'VEC':
            return
        obj = norm_abs(obj)
        if obj['phase'] != 'model' or obj['c']['ring']:
            return
        self.n += 1
        self.judged += 1
        self.model(obj)

    def model(self, obj):
        from stone.frontend.frontend import specs_to_ir
        from stone.compiler import Compiler
        schema, routes, surfaces = obj['schema'], obj['routes'], obj['surfaces']
        specs = render_model(schema, routes)
        ctx = {'vector': {'cfg': obj['cfg'], 'c': obj['c']}, 'specs': specs}

        def bad(msg, cls=None):
            self.violation(cls, '%s (model %s)' % (msg, obj['c']), ctx)
        if self.judged % 37 == 1:
            self.sample({'model': obj['c'], 'rows': [r[0] for r in ROWS]})
        outs = {}
        for row, name, args in ROWS:
            out = tempfile.mkdtemp(prefix='verif-sw-')
            try:
                try:
                    api = specs_to_ir(list(specs))
                    Compiler(api, importlib.import_module('stone.backends.' + name), list(args), out).build()
                except Exception as e:
                    tb = getattr(e, 'traceback', '') or ''
                    last = [l for l in str(tb).strip().split('\n') if l.strip()][-1:] or [str(e)]
                    cls = '%s_fails' % row
                    if obj['c'].get('tsd') and "Can't handle default value type" in last[0] and \
                            ('Timestamp' in last[0] or 'Bytes' in last[0]) and name in ('swift_types', 'obj_c_types'):
                        cls = 'swift_objc_default_of_timestamp_or_bytes'        # recorded in known_findings.json
                    bad('%s did not complete: %s: %s' % (row, type(e).__name__, last[0][:200]), cls)
                    continue
                self.count('backend_runs')
                files = {}
                for d, _, fs in os.walk(out):
                    for f in fs:
                        p = os.path.join(d, f)
                        try:
                            files[os.path.relpath(p, out)] = open(p, encoding='utf-8').read()
                        except UnicodeDecodeError:
                            bad('%s wrote %s which is not UTF-8' % (row, f))
                outs[row] = files
            finally:
                shutil.rmtree(out, ignore_errors=True)
        scanned = {}
        broken = set()
        for row, files in outs.items():
            scanned[row] = {}
            for rel, text in files.items():
                if not rel.endswith(('.swift', '.h', '.m')):
                    continue
                objc = rel.endswith(('.h', '.m'))
                code, prob = blank(text, objc)
                prob = prob or balance(code)
                if prob:
                    bad('%s: %s is not lexically well formed: %s' % (row, rel, prob), 'lexical')
                    broken.add(row)
                    continue
                self.count('files_lexed')
                if objc:
                    blocks, dups, names = scan_objc(code, rel.endswith('.h'))
                    scanned[row][rel] = (code, blocks, names)
                else:
                    topscope, dups = scan_swift(code)
                    scanned[row][rel] = (code, topscope, None)
                for where, key in dups:
                    bad('%s: %s declares %s twice in %s' % (row, rel, key, where or 'file scope'), 'redeclared')
        nss = [s for s in surfaces.values()]
        for row in broken:          # declarations of a file that does not lex cannot be counted; the lexical report stands
            scanned.pop(row, None)
        if 'swift_types' in scanned:
            self.swift_types(scanned, nss, bad)
        if 'swift_types_objc' in scanned:
            self.swift_types_objc(scanned, nss, bad)
        for row, prefix in (('swift_client', ''), ('swift_client_objc', 'DBX')):
            if row in scanned:
                self.swift_client(scanned[row], nss, bad, row, prefix)
        if 'obj_c_types' in scanned:
            self.objc(scanned, nss, bad)

    # ---- Swift ----
    # the Swift naming scheme appends an underscore to a name that is one of its reserved words (swift_helpers)
    SWIFT_RESERVED = {'description', 'bool', 'double', 'int32', 'int64', 'list', 'string', 'timestamp', 'uint32', 'uint64', 'void',
                      'associatedtype', 'class', 'deinit', 'enum', 'extension', 'func', 'import', 'init', 'inout', 'internal',
                      'let', 'operator', 'private', 'protocol', 'public', 'static', 'struct', 'subscript', 'typealias', 'var',
                      'default', 'hash', 'client'}

    @classmethod
    def sw(cls, n):
        return n + '_' if n.lower() in cls.SWIFT_RESERVED else n

    def swift_types(self, scanned, nss, bad):
        tops = {}
        for rel, (code, top, _) in scanned['swift_types'].items():
            for n, sc in top.types.items():
                tops[n] = sc
        for s in nss:
            nsn = pascal(s['ns'])
            has = _seq(s['structs']) or _seq(s['unions'])
            sc = tops.get(nsn)
            if sc is None:
                if has or _seq(s['routes']):
                    bad('swift_types declares no class %s for namespace %s' % (nsn, s['ns']))
                continue
            for st in _seq(s['structs']):
                for n in (self.sw(st['n']), self.sw(st['n']) + 'Serializer'):
                    if sc.decls.get(('type', n), 0) != 1:
                        bad('swift_types: %s.%s declared %d times' % (nsn, n, sc.decls.get(('type', n), 0)))
                tsc = sc.types.get(self.sw(st['n']))
                for m in _seq(st['members']):
                    if tsc is not None and tsc.decls.get(('prop', camel(m['n'])), 0) != 1:
                        bad('swift_types: field %s of %s.%s declared %d times' % (camel(m['n']), nsn, st['n'],
                                                                                  tsc.decls.get(('prop', camel(m['n'])), 0)))
            for u in _seq(s['unions']):
                for n in (self.sw(u['n']), self.sw(u['n']) + 'Serializer'):
                    if sc.decls.get(('type', n), 0) != 1:
                        bad('swift_types: %s.%s declared %d times' % (nsn, n, sc.decls.get(('type', n), 0)))
                tsc = sc.types.get(self.sw(u['n']))
                if tsc is not None and tsc.kind != 'enum':
                    bad('swift_types: union %s.%s is not an enum' % (nsn, u['n']))
                for m in _seq(u['all_members']):
                    if tsc is not None and tsc.decls.get(('case', camel(m['n'])), 0) != 1:
                        bad('swift_types: tag %s of %s.%s declared %d times' % (camel(m['n']), nsn, u['n'],
                                                                                tsc.decls.get(('case', camel(m['n'])), 0)))
        nsnames = '|'.join(pascal(s['ns']) for s in nss)
        ref = re.compile(r'(?<![\w.])(%s)\.([A-Z]\w*)(?:\.([a-z]\w*))?' % nsnames)
        for row in ('swift_types', 'swift_types_objc', 'swift_client', 'swift_client_objc'):
            for rel, (code, _, _) in scanned.get(row, {}).items():
                if not rel.endswith('.swift'):
                    continue
                for ns, n, member in set(ref.findall(code)):
                    sc = tops.get(ns)
                    if sc is None or ('type', n) not in sc.decls:
                        bad('%s: %s uses %s.%s which swift_types does not declare' % (row, rel, ns, n), 'undeclared')
                        continue
                    tsc = sc.types.get(n)
                    if member and tsc is not None and tsc.kind == 'enum' and member not in ('self', 'init', 'allCases') \
                            and ('case', member) not in tsc.decls and ('prop', member) not in tsc.decls \
                            and not any(k[0] == 'func' and re.search(r'\bfunc %s\b' % member, k[1]) for k in tsc.decls):
                        bad('%s: %s uses %s.%s.%s which is not a case of that enum' % (row, rel, ns, n, member), 'undeclared')
                self.count('swift_files_resolved')

    def swift_types_objc(self, scanned, nss, bad):
        declared = {}
        for row in ('swift_types_objc', 'swift_client_objc'):
            for rel, (code, top, _) in scanned.get(row, {}).items():
                for n, sc in top.types.items():
                    declared[n] = sc
        for s in nss:
            pre = 'DBX' + pascal(s['ns'])
            for st in _seq(s['structs']):
                sc = declared.get(pre + self.sw(st['n']))
                if sc is None:
                    bad('swift_types --objc declares no class %s%s' % (pre, self.sw(st['n'])))
                    continue
                for m in _seq(st['members']):
                    if sc.decls.get(('prop', camel(m['n'])), 0) != 1:
                        bad('swift_types --objc: field %s of %s%s declared %d times' % (camel(m['n']), pre, st['n'],
                                                                                       sc.decls.get(('prop', camel(m['n'])), 0)))
            for u in _seq(s['unions']):
                if declared.get(pre + u['n']) is None:
                    bad('swift_types --objc declares no class %s%s' % (pre, u['n']))
                for m in _seq(u['all_members']):
                    if declared.get(pre + u['n'] + pascal(m['n'])) is None:
                        bad('swift_types --objc declares no class %s%s%s for tag %s' % (pre, u['n'], pascal(m['n']), m['n']))
        ref = re.compile(r'\bDBX(?:%s)[A-Z]\w*' % '|'.join(pascal(s['ns']) for s in nss))
        for row in ('swift_types_objc', 'swift_client_objc'):
            for rel, (code, _, _) in scanned.get(row, {}).items():
                for n in set(ref.findall(code)):
                    if n not in declared:
                        bad('%s: %s uses %s which no --objc output declares' % (row, rel, n), 'undeclared')

    def swift_client(self, files, nss, bad, row, prefix):
        tops = {}
        for rel, (code, top, _) in files.items():
            tops.update(top.types)
        for s in nss:
            if not _seq(s['routes']):
                continue
            cname = prefix + pascal(s['ns']) + 'Routes'
            sc = tops.get(cname)
            if sc is None:
                bad('%s declares no class %s' % (row, cname))
                continue
            for r in _seq(s['routes']):
                if prefix and r.get('deprecated'):
                    continue        # ObjCRoutes.jinja leaves deprecated routes out of the Objective-C compatibility layer
                fn = camel(r['n']) + ('V%d' % r['ver'] if r['ver'] != 1 else '')
                c = 0
                for k, v in sc.decls.items():
                    fm = re.search(r'\bfunc (\w+)\(', k[1]) if k[0] == 'func' else None
                    if fm and fm.group(1).startswith(fn) and re.match(r'(?![a-z0-9_]|V\d)', fm.group(1)[len(fn):]):
                        c += v
                if c < STYLE_FUNCS[r['style']]:
                    bad('%s: route %s:%d (%s) has %d functions named %s in %s' % (row, r['n'], r['ver'], r['style'], c, fn, cname))

    # ---- Objective-C ----
    def objc(self, scanned, nss, bad):
        interfaces, names = {}, set()
        for row in ('obj_c_types', 'obj_c_client'):
            for rel, (code, blocks, nm) in scanned.get(row, {}).items():
                names |= nm
                for (kind, name, cat), val in blocks.items():
                    if kind == 'interface' and rel.endswith('.h') and not cat:
                        if name in interfaces:
                            bad('%s: @interface %s declared in %s and %s' % (row, name, interfaces[name][0], rel), 'redeclared')
                        interfaces[name] = (rel, val[1])
        for s in nss:
            pre = 'DB' + s['ns'].upper().replace('_', '')
            for t in _seq(s['structs']) + _seq(s['unions']):
                cname = pre + t['n']
                for n in (cname, cname + 'Serializer'):
                    if n not in interfaces:
                        bad('obj_c_types declares no @interface %s' % n)
                if cname not in interfaces:
                    continue
                seen = interfaces[cname][1]
                if t['k'] == 'struct':
                    for m in _seq(t['members']):
                        if not any(k[0] == 'prop' and k[1] in (camel(m['n']), camel(m['n']) + '_') for k in seen):
                            bad('obj_c_types: %s has no property for field %s' % (cname, m['n']))
                else:
                    for m in _seq(t['all_members']):
                        tagp = pascal(m['n'])
                        if not any(k[0] == 'method' and k[2].rstrip(':') == 'initWith' + tagp for k in seen):
                            bad('obj_c_types: %s has no initWith%s' % (cname, tagp))
                        if ('method', '-', 'is' + tagp) not in seen:
                            bad('obj_c_types: %s has no is%s' % (cname, tagp))
                        # a member with a value is read through a property of the union class itself (Objective-C union
                        # classes do not inherit from the class of the parent union), inherited members included
                        if not m['void'] and not any(k[0] == 'prop' and k[1] in (camel(m['n']), camel(m['n']) + '_') for k in seen):
                            bad('obj_c_types: %s has no property for the value of member %s' % (cname, m['n']))
            if _seq(s['routes']):
                ro = interfaces.get(pre + 'RouteObjects')
                if ro is None:
                    bad('obj_c_types declares no @interface %sRouteObjects' % pre)
                rc = interfaces.get(pre + 'UserAuthRoutes') if 'obj_c_client' in scanned else None
                if 'obj_c_client' in scanned and rc is None:
                    bad('obj_c_client declares no @interface %sUserAuthRoutes' % pre)
                for r in _seq(s['routes']):
                    fn = pascal(r['n']) + ('V%d' % r['ver'] if r['ver'] != 1 else '')
                    if ro is not None and ('method', '+', pre + fn) not in ro[1]:
                        bad('obj_c_types: %sRouteObjects has no accessor %s%s' % (pre, pre, fn))
                    if rc is not None:
                        lf = fn[0].lower() + fn[1:]
                        c = sum(1 for k in rc[1] if k[0] == 'method' and re.match(r'%s(Url|Data)?(:|$)' % re.escape(lf), k[2]))
                        if c < STYLE_FUNCS[r['style']]:
                            bad('obj_c_client: route %s:%d (%s) has %d methods named %s' % (r['n'], r['ver'], r['style'], c, lf))
        ref = re.compile(r'\bDB(?:%s)[A-Z][a-z]\w*' % '|'.join(s['ns'].upper().replace('_', '') for s in nss))
        for row in ('obj_c_types', 'obj_c_client'):
            for rel, (code, _, _) in scanned.get(row, {}).items():
                for n in set(ref.findall(code)):
                    if n not in names and n not in interfaces:
                        bad('%s: %s uses %s which is not declared' % (row, rel, n), 'undeclared')
                # every identifier in class position (message receiver, pointer type, forward declaration) is a
                # Foundation class, one of the SDK classes named on the command line, or declared by the output
                for n in set(re.findall(r'\[([A-Z]\w*)\s', code)) | set(re.findall(r'\b([A-Z]\w*)\s*\*', code)) \
                        | set(re.findall(r'@class\s+(\w+)\s*;', code)):
                    if n.startswith(('NS', 'CF')) or n in OBJC_EXTERNAL or n in interfaces or n in names:
                        continue
                    bad('%s: %s uses class %s which is neither declared nor an SDK/Foundation class' % (row, rel, n), 'undeclared')
                self.count('objc_files_resolved')

"""Shared plumbing: sharded TLC runs feeding judges, evidence files, known findings, exit codes."""
import hashlib
import importlib
import json
import multiprocessing
import os
import random
import sys
import time
import traceback

import tlc

ROOT = os.path.dirname(os.path.dirname(os.path.abspath(__file__)))
_OUT = os.environ.get('STONE_VERIF_OUT') or ROOT     # seed testing writes its evidence/replays elsewhere
EVIDENCE = os.path.join(_OUT, 'evidence')
REPLAYS = os.path.join(_OUT, 'replays')
KNOWN = os.path.join(ROOT, 'known_findings.json')


def seed():
    try:
        return int(os.environ.get('VERIF_SEED', '0'))
    except ValueError:
        return 0


def known_findings(prop):
    with open(KNOWN) as f:
        data = json.load(f)
    return {e['id']: e for e in data.get('findings', []) if e['property'] == prop}


class Judge:
    """Base class: consumes vectors, accumulates counts / violations / known findings / samples."""

    def __init__(self, params):
        self.params = params
        self.n = 0
        self.judged = 0
        self.skipped = {}
        self.violations = []   # {'finding': id or None, 'what': str, 'vector': obj, 'observed': ...}
        self.known = {}        # finding id -> count
        self.samples = []
        self.kinds = {}
        self._vclasses = {}

    def count(self, key, n=1):
        self.kinds[key] = self.kinds.get(key, 0) + n

    def skip(self, why):
        self.skipped[why] = self.skipped.get(why, 0) + 1

    def violation(self, finding, what, vector, observed=None):
        # keep a few examples of every class (finding id, or message shape); never drop a class
        import re
        cls = finding or re.sub(r'[0-9]+|\{.*|\[.*|\(.*', '#', what)[:80]
        n = self._vclasses.get(cls, 0)
        self._vclasses[cls] = n + 1
        if n < 5:
            self.violations.append({'finding': finding, 'what': what, 'vector': vector,
                                    'observed': observed, 'class': cls})
        self.count('viol:' + cls)

    def sample(self, obj):
        if len(self.samples) < 3:
            self.samples.append(obj)

    def on_vec(self, tag, obj):
        raise NotImplementedError

    def finish(self):
        pass

    def summary(self):
        return {'n': self.n, 'judged': self.judged, 'skipped': self.skipped,
                'violations': self.violations, 'samples': self.samples, 'kinds': self.kinds}


def _shard_worker(job):
    (module, cfg_kwargs, judge_path, params, tlc_kwargs) = job
    sys.path.insert(0, os.path.dirname(os.path.abspath(__file__)))
    modname, clsname = judge_path.rsplit('.', 1)
    try:
        judge = getattr(importlib.import_module(modname), clsname)(params) if judge_path else None
        res = tlc.run(module, cfg_kwargs, workers=1,
                      on_vec=(judge.on_vec if judge else None), **tlc_kwargs)
        if judge:
            judge.finish()
        res.pop('tail', None)
        return {'tlc': dict(res), 'judge': judge.summary() if judge else None, 'error': None}
    except tlc.TlcFailure as e:
        return {'tlc': None, 'judge': None, 'error': 'TLC: %s' % e}
    except Exception:
        return {'tlc': None, 'judge': None, 'error': traceback.format_exc()}


def run_shards(module, cfg_for_shard, shards, judge_path, params=None, nprocs=16, tlc_kwargs=None):
    """Run one single-worker TLC per shard, each streaming its vectors into its own judge."""
    jobs = []
    for s in shards:
        cfg = dict(cfg_for_shard(s))
        tk = dict(tlc_kwargs or {})
        tk.update(cfg.pop('_tlc', {}))          # per-shard TLC options (e.g. a simulation seed)
        jobs.append((module, cfg, judge_path, params or {}, tk))
    ctx = multiprocessing.get_context('fork')
    with ctx.Pool(min(nprocs, max(1, len(jobs)))) as pool:
        results = pool.map(_shard_worker, jobs, chunksize=1)
    return results


class MachineryFailure(Exception):
    pass


def merge(results):
    agg = {'states': 0, 'distinct': 0, 'depth': 0, 'violated': [], 'n': 0, 'judged': 0,
           'skipped': {}, 'violations': [], 'samples': [], 'kinds': {}, 'traces': 0}
    for r in results:
        if r['error']:
            raise MachineryFailure(r['error'])
        t = r['tlc']
        agg['states'] += t['states']
        agg['distinct'] += t['distinct']
        agg['traces'] += t.get('traces', 0)
        agg['depth'] = max(agg['depth'], t['depth'])
        agg['violated'] += t['violated']
        j = r['judge']
        if j:
            agg['n'] += j['n']
            agg['judged'] += j['judged']
            for k, v in j['skipped'].items():
                agg['skipped'][k] = agg['skipped'].get(k, 0) + v
            for k, v in j['kinds'].items():
                agg['kinds'][k] = agg['kinds'].get(k, 0) + v
            agg['violations'] += j['violations']
            if len(agg['samples']) < 3:
                agg['samples'] += j['samples'][:3 - len(agg['samples'])]
    return agg


class Report:
    """Collects the outcome of one check run and turns it into stdout lines, evidence and exit status."""

    def __init__(self, prop, tier, level='model_checking'):
        self.prop = prop
        self.tier = tier
        self.level = level
        self.t0 = time.time()
        self.states = 0
        self.transitions = 0
        self.validated = 0
        self.samples = []
        self.violations = []      # (finding, what, payload)
        self.model_violations = []
        self.coverage_extra = {}
        self.assumptions = []
        self.exhaustive = None
        self.configs = []

    def add_tlc(self, name, agg, constants=None):
        self.states += agg['distinct'] or agg['states']
        self.transitions += agg['states']
        for inv in agg.get('violated', []):
            self.model_violations.append('%s:%s' % (name, inv))
        self.configs.append({'config': name, 'states_generated': agg['states'],
                             'distinct_states': agg['distinct'], 'depth': agg.get('depth', 0),
                             'constants': constants or {},
                             'simulation_traces': agg.get('traces', 0)})

    def add_judged(self, agg):
        self.validated += agg['judged']
        for v in agg['violations']:
            self.violations.append(v)
        for s in agg['samples']:
            if len(self.samples) < 5:
                self.samples.append(s)
        for k, v in agg['skipped'].items():
            key = 'skipped_' + k
            self.coverage_extra[key] = self.coverage_extra.get(key, 0) + v
        for k, v in agg['kinds'].items():
            self.coverage_extra[k] = self.coverage_extra.get(k, 0) + v

    def finish(self):
        known = known_findings(self.prop)
        lines = []
        nviol = 0
        seen_known = {}
        os.makedirs(os.path.join(REPLAYS, self.prop), exist_ok=True)
        for mv in self.model_violations:
            path = self._write_replay({'model_violation': mv})
            lines.append('VIOLATION property=%s replay=%s' % (self.prop, path))
            print('  model-level: TLC reports %s violated' % mv)
            nviol += 1
        reported = {}
        for v in self.violations:
            fid = v.get('finding')
            total = self.coverage_extra.get('viol:' + v.get('class', ''), 1)
            if fid and fid in known:
                seen_known[fid] = total
                continue
            nviol += 1
            if reported.get(v.get('class'), 0) >= 3:
                continue
            reported[v.get('class')] = reported.get(v.get('class'), 0) + 1
            path = self._write_replay(v)
            lines.append('VIOLATION property=%s replay=%s' % (self.prop, path))
            print('  %s%s (%d of this class)' % (v['what'], (' [class %s]' % fid) if fid else '', total))
        for fid, n in sorted(seen_known.items()):
            print('KNOWN-FINDING: property=%s %s (%s; %d occurrences this run)'
                  % (self.prop, fid, known[fid]['what'], n))
        for ln in lines[:50]:
            print(ln)
        self._write_evidence(nviol, seen_known)
        return 1 if nviol else 0

    def _write_replay(self, payload):
        blob = json.dumps(payload, sort_keys=True, default=str)
        h = hashlib.sha1(blob.encode()).hexdigest()[:16]
        path = os.path.join(REPLAYS, self.prop, h + '.json')
        with open(path, 'w') as f:
            f.write(blob)
        return path

    def _write_evidence(self, nviol, seen_known):
        cov = {'states': max(self.states, 0), 'transitions': max(self.transitions, 0),
               'traces_validated_against_impl': self.validated,
               'samples': self.samples or [{'note': 'no vector sampled'}],
               'configs': self.configs,
               'known_findings_seen': seen_known}
        if self.exhaustive is not None:
            cov['exhaustive'] = self.exhaustive
        cov.update(self.coverage_extra)
        ev = {'property_id': self.prop, 'tier': self.tier, 'seed': seed(), 'level': self.level,
              'coverage': cov, 'assumptions': self.assumptions,
              'wall_s': round(time.time() - self.t0, 2), 'violations': nviol}
        os.makedirs(EVIDENCE, exist_ok=True)
        with open(os.path.join(EVIDENCE, self.prop + '.json'), 'w') as f:
            json.dump(ev, f, indent=1, default=str)


def pick(items, k, rng):
    items = list(items)
    if k >= len(items):
        return items
    return sorted(rng.sample(items, k))

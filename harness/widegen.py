"""Driver on the implementation side for StoneWireWide: random values of the StoneWireMC schemas that are wider and deeper than
the values TLC enumerates.  Values are written in the abstract vocabulary (ranks, symbolic texts) as ndjson."""
import json
import random

from anchors import INT_LIMITS, FLOAT_LIMITS, UNSET


def _seq(x):
    return x if isinstance(x, list) else []


def chain(sc, n):
    out = []
    while n:
        out.append(n)
        n = sc[n]['parent']
    return out[::-1]


def unalias(sc, t):
    while t['k'] == 'ref' and sc[t['n']]['k'] == 'alias':
        t = sc[t['n']]['t']
    return t


def is_optional(sc, f):
    return f['d']['k'] != 'nodefault' or unalias(sc, f['t'])['k'] == 'nullable'


class Gen:
    def __init__(self, sc, rng, lossy_ts=False):
        self.sc, self.rng, self.lossy_ts = sc, rng, lossy_ts

    def val(self, t, depth):
        rng, sc = self.rng, self.sc
        k = t['k']
        if k == 'int':
            lo = t['lo'] if t['lo'] != UNSET else INT_LIMITS[t['p']][0]
            hi = t['hi'] if t['hi'] != UNSET else INT_LIMITS[t['p']][1]
            return {'k': 'int', 'r': rng.randint(lo, hi)}
        if k == 'float':
            lo = t['lo'] if t['lo'] != UNSET else FLOAT_LIMITS[t['p']][0]
            hi = t['hi'] if t['hi'] != UNSET else FLOAT_LIMITS[t['p']][1]
            return {'k': 'float', 'r': rng.randint(lo, hi)}
        if k == 'str':
            lo = max(t['min'], 0) if t['min'] != UNSET else 0
            hi = t['max'] if t['max'] != UNSET else 4
            n = rng.randint(lo, max(lo, min(hi, 4)))
            if n == 0 and t['pat']:
                n = 1
            return {'k': 'str', 'len': n, 'ok': True, 'u': 0} if n == 0 else {'k': 'str', 'len': n, 'ok': True, 'u': rng.choice([0, 0, 1])}
        if k == 'bytes':
            n = rng.randint(0, 3)
            return {'k': 'bytes', 'len': n, 'id': 0 if n == 0 else rng.choice([0, 1])}
        if k == 'bool':
            return {'k': 'bool', 'b': rng.random() < 0.5}
        if k == 'ts':
            return {'k': 'ts', 'id': rng.choice([0, 1, 2, 3] if self.lossy_ts and t['fmt'] in ('f1', 'f2') else [0, 1])}
        if k == 'void':
            return {'k': 'none'}
        if k == 'nullable':
            return {'k': 'none'} if rng.random() < 0.3 or depth <= 0 else self.val(t['e'], depth)
        if k == 'list':
            lo = t['min'] if t['min'] != UNSET else 0
            hi = t['max'] if t['max'] != UNSET else 3
            n = rng.randint(lo, max(lo, min(hi, 3))) if depth > 0 else lo
            return {'k': 'list', 'items': [self.val(t['e'], depth - 1) for _ in range(n)]}
        if k == 'map':
            n = rng.randint(0, 3) if depth > 0 else 0
            return {'k': 'map', 'm': [['k%d' % (i + 1), self.val(t['v'], depth - 1)] for i in range(n)]}
        if k == 'ref':
            d = sc[t['n']]
            if d['k'] == 'alias':
                return self.val(d['t'], depth)
            if d['k'] == 'struct':
                c = t['n'] if not _seq(d['subs']) else rng.choice(_seq(d['subs']))['sub']
                if self.lossy_ts and not _seq(d['subs']) and rng.random() < 0.3:
                    # an instance of an extending struct where the parent is declared (the runtime accepts it): the
                    # encoding is that of the DECLARED struct, so the round trip loses the extra fields
                    ext = [n for n, x in sc.items() if x['k'] == 'struct' and n != t['n'] and t['n'] in chain(sc, n)
                           and not any(_seq(sc[a]['subs']) for a in chain(sc, n))]
                    if ext:
                        c = rng.choice(sorted(ext))
                f = []
                for cc in chain(sc, c):
                    for fd in _seq(sc[cc]['fields']):
                        if fd.get('omit'):
                            continue
                        if is_optional(sc, fd) and (depth <= 0 or rng.random() < 0.4):
                            continue
                        v = self.val(fd['t'], depth - 1)
                        if v['k'] == 'none':
                            continue            # an unset optional field
                        f.append([fd['n'], v])
                return {'k': 'struct', 'c': c, 'f': f}
            if d['k'] == 'union':
                tags = [tg for cc in chain(sc, t['n']) for tg in _seq(sc[cc]['tags']) if not tg.get('omit')]
                if depth <= 0:
                    void = [tg for tg in tags if tg['t']['k'] == 'void']
                    tags = void or tags
                tg = rng.choice(tags)
                return {'k': 'union', 'c': t['n'], 'tag': tg['n'], 'v': self.val(tg['t'], depth - 1)}
        raise ValueError(t)


def write_trace(path, schemas, per_cfg, seed, depth=4, lossy_ts=False):
    """schemas: {cfg index: (schema, roots)}.  Writes per_cfg random (root, value) lines for every schema."""
    rng = random.Random(seed)
    n = 0
    with open(path, 'w') as f:
        for cfg in sorted(schemas):
            sc, roots = schemas[cfg]
            g = Gen(sc, rng, lossy_ts)
            for _ in range(per_cfg):
                ri = rng.randrange(len(roots))
                v = g.val(roots[ri], depth)
                if v['k'] == 'none':
                    continue
                f.write(json.dumps({'cfg': cfg, 'root': roots[ri], 'val': v}) + '\n')
                n += 1
    return n

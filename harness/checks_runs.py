"""C12: StoneRuns histories executed in real processes, log validated by StoneRunsTrace."""
import json
import os
import random
import subprocess
import sys
import tempfile
from concurrent.futures import ThreadPoolExecutor

import tlc
from runner import Report, seed, ROOT
import backendruns

HERE = os.path.dirname(os.path.abspath(__file__))


def _exec(hist):
    env = dict(os.environ)
    env['PYTHONHASHSEED'] = str(hist['seed'])
    r = subprocess.run([sys.executable, os.path.join(HERE, 'run_history.py'), json.dumps(hist)],
                       capture_output=True, text=True, env=env, timeout=600)
    evs = [json.loads(l) for l in r.stdout.splitlines() if l.startswith('{')]
    return hist, evs, r.stderr[-300:] if r.returncode else ''


def check_c12(tier, replay=None):
    rep = Report('C12', tier)
    nrows = len(backendruns.ROWS)
    rnd = random.Random(seed()).randrange(3, 10 ** 6)
    seeds = [0, 1, 2, 3, rnd] if tier == 'quick' else [0, 1, 2, 3, 4, 5, rnd, rnd + 1]
    hists = []
    if replay:
        with open(replay) as f:
            payload = json.load(f)
        hists = payload.get('vector', {}).get('histories', [])
    else:
        def on(tag, obj):
            steps = obj['steps'] if isinstance(obj['steps'], list) else []
            if tier == 'quick' and len(steps) == 2 and (steps[0]['dir'] == 'd2' or obj['seed'] not in (0, rnd)):
                return      # quick: two-step histories for two of the seeds, single runs for all of them
            hists.append({'hid': len(hists) + 1, 'seed': obj['seed'], 'steps': steps})
        res = tlc.run('StoneRuns', dict(spec='Spec', constants={'Rows': nrows, 'SpecSets': 3,
                                                               'Seeds': '{%s}' % ', '.join(map(str, seeds)),
                                                               'Shard': 0, 'NShards': 1, 'EmitVectors': True},
                                       invariants=['TypeOK'], constraints=['Emit']), workers=1, on_vec=on)
        rep.add_tlc('StoneRuns', {'states': res['states'], 'distinct': res['distinct'], 'depth': res['depth'],
                                  'violated': res['violated']}, {'Rows': nrows, 'SpecSets': 3, 'Seeds': seeds})
    # execute every history in its own process
    events = []
    failed = []
    with ThreadPoolExecutor(max_workers=16) as ex:
        for hist, evs, err in ex.map(_exec, hists):
            events += evs
            if err or len(evs) != len(hist['steps']):
                failed.append((hist, err))
    if failed:
        raise RuntimeError('history runner failed: %s' % (failed[0],))
    # validate the log against the specification
    tmp = tempfile.mkdtemp(prefix='verif-c12-')
    try:
        path = os.path.join(tmp, 'trace.ndjson')
        with open(path, 'w') as f:
            for e in events:
                f.write(json.dumps(e) + '\n')
        bad = []

        def on_bad(tag, obj):
            if tag == 'BAD':
                bad.extend(obj if isinstance(obj, list) else [obj])
        r = tlc.run('StoneRunsTrace', dict(spec='Spec', invariants=['Final'], postcondition='Accepted'),
                    workers=1, on_vec=on_bad, env_extra={'TRACE_FILE': path}, keep_output=True)
        out = '\n'.join(r.get('output', []))
        rejected = ('BAD' in out) or bool(bad) or bool(r['violated']) or not r['ok']
        if not bad and rejected:
            import re
            m = re.search(r'<<"BAD", "(.*)">>', out)
            if m:
                bad = json.loads(json.loads('"' + m.group(1) + '"'))
        rep.add_tlc('StoneRunsTrace', {'states': r['states'], 'distinct': r['distinct'], 'depth': r['depth'], 'violated': []},
                    {'events': len(events)})
    finally:
        import shutil
        shutil.rmtree(tmp, ignore_errors=True)
    agg = {'judged': len(events), 'violations': [], 'samples': events[:2], 'skipped': {}, 'kinds': {'histories': len(hists)}}
    by_key = {}
    for e in events:
        by_key.setdefault((e['row'], e['spec']), []).append(e)
    if rejected and not bad:
        raise RuntimeError('trace rejected but no BAD record parsed:\n' + out[-1500:])
    for b in bad:
        row = backendruns.ROWS[b['row'] - 1]
        evs = by_key[(b['row'], b['spec'])]
        first = evs[0]
        other = [e for e in evs if e['hid'] == b['hid'] and e['seed'] == b['seed'] and e['digest'] != first['digest']][:1] or evs[-1:]
        cls = 'nondeterministic_%s_spec%d' % (row[0], b['spec'])
        hs = [h for h in hists if h['hid'] in (first['hid'], b['hid'])]
        agg['violations'].append({'finding': cls, 'class': cls,
                                  'what': 'backend %s %s on spec set %d produced different files in two runs (hash seed %s vs %s; histories %s vs %s)'
                                          % (row[0], row[1][:3], b['spec'], first['seed'], b['seed'], first['hid'], b['hid']),
                                  'vector': {'histories': hs, 'event': b}, 'observed': None})
        agg['kinds']['viol:' + cls] = agg['kinds'].get('viol:' + cls, 0) + 1
    exc = [e for e in events if e['digest'].startswith('EXC:')]
    for e in exc[:3]:
        agg['violations'].append({'finding': None, 'class': 'backend_exc', 'what': 'backend row %s failed: %s' % (backendruns.ROWS[e['row'] - 1][0], e['digest']),
                                  'vector': {'histories': [h for h in hists if h['hid'] == e['hid']]}, 'observed': None})
    rep.add_judged(agg)
    rep.exhaustive = True
    rep.coverage_extra['rule'] = ('every history of StoneRuns: hash seed in %s x {fresh process, after the same backend on the other spec set, '
                                  'after another backend on the same spec set} x two output directories x 19 backend rows x 3 spec sets (the third compiled with a route whitelist over cyclic annotated types; one with '
                                  'two omitted-caller classes on one union and struct, custom attrs, cross-namespace imports, a routes-only '
                                  'namespace); each history runs in its own process with PYTHONHASHSEED set; one digest per run over relative '
                                  'paths and bytes; the log is validated by StoneRunsTrace (memo[input] = digest)' % seeds)
    rep.assumptions = ['TLC 1.8 with Json/IOUtils (ndJsonDeserialize, IOEnv); sha256 of the written files']
    return rep.finish()
